"""rules_msg.py -- message.py rules: identity hash (C17) and preferred-unit conversion (C18)."""
from __future__ import annotations

import ast
import math
from fractions import Fraction

from . import sym
from .sym import C, NONE, show
from .model import AnalysisError

MSG = 'nmea2000/message.py'
UT = 'nmea2000/utils.py'

DEC = 'nmea2000/decoder.py'

def loop_body_events(fn, loop, extra_params=()):
    """SymExec of a for-loop body as if it were a function of the enclosing function's parameters + the loop variable"""
    args = ast.arguments(posonlyargs=[], args=[ast.arg(arg=a.arg) for a in fn.args.args] + [ast.arg(arg=n.id) for n in ast.walk(loop.target) if isinstance(n, ast.Name)] +
                         [ast.arg(arg=x) for x in extra_params], kwonlyargs=[], kw_defaults=[], defaults=[])
    fake = ast.FunctionDef(name=fn.name + '$loop', args=args, body=loop.body, decorator_list=[], lineno=loop.lineno, col_offset=0)
    ex = sym.SymExec(fake)
    ex.run()
    return ex

# ---------------------------------------------------------------------------
# C17
# ---------------------------------------------------------------------------
def _hash_order(chk, program):
    # HASH-ORDER in the decoder: add_data precedes apply_preferred_units; neither writes raw_value / id
    dfn = program.fn('decoder', 'NMEA2000Decoder._call_decode_function')
    order = [n.func.attr for n in ast.walk(dfn) if isinstance(n, ast.Call) and isinstance(n.func, ast.Attribute) and n.func.attr in ('add_data', 'apply_preferred_units')]
    lines = {n.func.attr: n.lineno for n in ast.walk(dfn) if isinstance(n, ast.Call) and isinstance(n.func, ast.Attribute) and n.func.attr in ('add_data', 'apply_preferred_units')}
    in_order = sorted(order) == ['add_data', 'apply_preferred_units'] and lines['add_data'] < lines['apply_preferred_units']
    # the order only matters when the conversion writes something the hash reads: with raw_value / id / part_of_primary_key never written by
    # apply_preferred_units (the obligation below) and the hash a function of those alone (HASH-DEPS), any order gives the same hash
    apu = program.fn('message', 'NMEA2000Message.apply_preferred_units')
    touches = [n.attr for n in ast.walk(apu) if isinstance(n, ast.Attribute) and isinstance(n.ctx, ast.Store) and n.attr in ('raw_value', 'id', 'part_of_primary_key')]
    chk.check(in_order or not touches, 'HASH-ORDER', 'hash-before-unit-conversion', file='nmea2000/decoder.py',
              line=lines.get('add_data', dfn.lineno), func='_call_decode_function', expected='the hash is taken before apply_preferred_units, or the conversion writes nothing the hash reads',
              found={'calls': order, 'conversion writes': touches})
    args = [n for n in ast.walk(dfn) if isinstance(n, ast.Call) and isinstance(n.func, ast.Attribute) and n.func.attr == 'add_data']
    if args:
        adp = [a_.arg for a_ in program.fn('message', 'NMEA2000Message.add_data').args.args][1:]
        flagp = next((p_ for p_ in adp if 'network' in p_ or 'map' in p_), None)
        a = list(args[0].args)
        kw = {k.arg: k.value for k in args[0].keywords}
        fl = kw.get(flagp) if flagp in kw else (a[adp.index(flagp)] if flagp in adp and adp.index(flagp) < len(a) else None)
        chk.check(fl is not None and ast.unparse(fl) == 'self.build_network_map', 'HASH-DEPS', 'flag-is-build_network_map', file='nmea2000/decoder.py', line=args[0].lineno, func='_call_decode_function',
                  expected='the mapping flag handed to add_data is the decoder option', found=ast.unparse(fl) if fl is not None else None)
    for q in ('NMEA2000Message.add_data', 'NMEA2000Message.apply_preferred_units'):
        f2 = program.fn('message', q)
        bad = [n for n in ast.walk(f2) if isinstance(n, ast.Attribute) and isinstance(n.ctx, ast.Store) and n.attr in ('raw_value', 'id', 'part_of_primary_key')]
        chk.check(not bad, 'HASH-ORDER', f"{q}::does-not-touch-hash-inputs", file=MSG, line=f2.lineno, func=q, expected='raw_value / id / part_of_primary_key never written', found=[b.attr for b in bad])


def hash_semantic(chk, program):
    """NMEA2000Message.add_data interpreted (absint) on a message with id 'theId' and four fields -- key, non-key, key, flag None -- whose raw values
    are symbols, and symbolic source / destination / priority.  -> True when decided (obligations emitted), False when not interpretable.
    With the mapping flag off the hash must stay None; with it on, the digest must be a hashlib digest of exactly: the id, then, for the key
    fields in field order, a constant non-numeric separator and the raw value -- no other symbol may reach it."""
    from . import absint as A
    fn = program.fn('message', 'NMEA2000Message.add_data')
    cls = program.cls('message', 'NMEA2000Message')
    methods = {n.name: n for n in cls.body if isinstance(n, ast.FunctionDef)}
    funcs = {q: f for q, f in program.mod('message').defs.items() if '.' not in q}
    params = [a.arg for a in fn.args.args]
    ALGOS = ('md5', 'sha1', 'sha224', 'sha256', 'sha384', 'sha512', 'blake2b', 'blake2s', 'sha3_256', 'sha3_512')
    def _pieces(a):
        if isinstance(a, A.AStr):
            return list(a.pieces)
        if isinstance(a, A.ABytes) and all(x[0] == 'c' and x[1] < 128 for x in a.items):
            return [('lit', bytes(x[1] for x in a.items).decode('ascii'))]
        return [('opaque', repr(a))]
    def run(flag):
        used_builtin_hash = []
        def hook(it, call, env):
            f = call.func
            if isinstance(f, ast.Name) and f.id == 'hash':
                used_builtin_hash.append(call.lineno)
                return A.AOpaque('builtin hash')
            if isinstance(f, ast.Attribute) and isinstance(f.value, ast.Name) and f.value.id == 'hashlib' and f.attr != 'new':
                args = [it.expr(a, env) for a in call.args]
                h = A.AObj(hasher=f.attr, data=[])
                for a in args:
                    h.attrs['data'].extend(_pieces(a))
                return h
            if (isinstance(f, ast.Name) and f.id in ALGOS and f.id not in env) or (isinstance(f, ast.Attribute) and isinstance(f.value, ast.Name) and f.value.id == 'hashlib' and f.attr == 'new'):
                args = [it.expr(a, env) for a in call.args]
                if isinstance(f, ast.Attribute):
                    if not args or not isinstance(args[0], A.AStr) or args[0].literal() is None:
                        return NotImplemented
                    algo, args = args[0].literal(), args[1:]
                else:
                    algo = f.id
                h = A.AObj(hasher=algo, data=[])
                for a in args:
                    h.attrs['data'].extend(_pieces(a))
                return h
            if isinstance(f, ast.Attribute) and f.attr == 'hex' and not call.args:
                try:
                    o = it.expr(f.value, env)
                except A.Unknown:
                    return NotImplemented
                if isinstance(o, A.AObj) and o.attrs.get('digest') == 'digest':
                    return A.AObj(digest='hexdigest', algo=o.attrs['algo'], of=list(o.attrs['of']))
                return NotImplemented
            if isinstance(f, ast.Attribute) and f.attr in ('update', 'hexdigest', 'digest', 'copy'):
                o = it.expr(f.value, env)
                if isinstance(o, A.AObj) and 'hasher' in o.attrs:
                    if f.attr == 'update':
                        for a in [it.expr(a, env) for a in call.args]:
                            o.attrs['data'].extend(_pieces(a))
                        return None
                    if f.attr == 'copy':
                        return A.AObj(hasher=o.attrs['hasher'], data=list(o.attrs['data']))
                    return A.AObj(digest=f.attr, algo=o.attrs['hasher'], of=list(o.attrs['data']))
            return NotImplemented
        def fld(i, pk):
            return A.AObj(id=A.AStr([('lit', f"f{i}")]), raw_value=A.sym_int(f"raw{i}", 32), value=A.sym_int(f"val{i}", 32), part_of_primary_key=pk,
                          name=A.AStr([('lit', f"F{i}")]), unit_of_measurement=None, physical_quantities=None, type=A.AOpaque('type'), description=None)
        absent_key = fld(5, True)
        absent_key.attrs['raw_value'] = None
        absent_key.attrs['value'] = None
        msg = A.AObj(id=A.AStr([('lit', 'theId')]), PGN=A.AInt(130000), fields=A.AList([fld(1, True), fld(2, False), fld(3, True), fld(4, None), absent_key]), hash=A.AOpaque('unset'),
                     description=A.AStr([('lit', 'descr')]), ttl=None)
        binding = {'src': A.sym_int('src', 8), 'dest': A.sym_int('dest', 8), 'priority': A.sym_int('prio', 3), 'timestamp': A.AOpaque('ts'),
                   'source_iso_name': A.AObj(name=A.sym_int('NAME', 64)), 'raw_can_data': A.AOpaque('raw')}
        args = [msg]
        for p_ in params[1:]:
            if 'network' in p_ or 'map' in p_:
                args.append(flag)
            elif p_ in binding:
                args.append(binding[p_])
            elif p_ in _defaulted(fn):
                args.append(_defaulted(fn)[p_])     # a further, optional parameter: add_data as it behaves when the caller leaves it out (the call site: hash_through_decoder)
            else:
                args.append(A.AOpaque(p_))
        from .wire import is_logger
        it = A.Interp(hook=hook, skip=is_logger, methods=methods, functions=funcs)
        it.call_function(fn, args)
        return msg.attrs.get('hash'), used_builtin_hash
    try:
        off, hb0 = run(False)
        on, hb1 = run(True)
    except (A.Unknown, A.RaiseSignal) as u:
        chk.unit('add_data_not_interpretable', str(u))
        return False
    if isinstance(off, A.AOpaque) or isinstance(on, A.AOpaque):
        chk.unit('add_data_not_interpretable', f"hash value not followed: {off!r} / {on!r}"[:200])
        return False
    chk.check(off is None, 'HASH-DEPS', 'hash-only-when-mapping', file=MSG, line=fn.lineno, func='add_data', expected='hash is None when network mapping is off', found=repr(off) if off is not None else 'None')
    chk.check(not hb0 and not hb1, 'HASH-DEPS', 'no-builtin-hash', file=MSG, line=(hb0 + hb1 + [fn.lineno])[0], func='add_data', expected='builtin hash() not used (salted per process)', found=len(hb0 + hb1), nontrivial=False)
    okd = isinstance(on, A.AObj) and on.attrs.get('algo') in ALGOS and on.attrs.get('digest') in ('hexdigest', 'digest')
    chk.check(okd, 'HASH-DEPS', 'process-independent-digest', file=MSG, line=fn.lineno, func='add_data', expected='with mapping on: a hashlib digest (never the per-process builtin hash())',
              found=f"hashlib.{on.attrs.get('algo')}(..).{on.attrs.get('digest')}()" if isinstance(on, A.AObj) and 'algo' in on.attrs else repr(on))
    if not okd:
        return True
    # merge adjacent literals
    pieces = []
    for p_ in on.attrs['of']:
        if p_[0] == 'lit' and pieces and pieces[-1][0] == 'lit':
            pieces[-1] = ('lit', pieces[-1][1] + p_[1])
        elif not (p_[0] == 'lit' and p_[1] == ''):
            pieces.append(p_)
    def is_raw(p_, i):
        return p_[0] == 'decint' and isinstance(p_[1], A.AInt) and p_[1].vec() is not None and A.B.trim(p_[1].vec()) == [(f"raw{i}", k) for k in range(32)]
    shape_ok = len(pieces) == 5 and pieces[0][0] == 'lit' and pieces[0][1].startswith('theId') and is_raw(pieces[1], 1) and pieces[2][0] == 'lit' and is_raw(pieces[3], 3) and pieces[4][0] == 'lit'
    sep_ok = False
    if shape_ok:
        s1, s2, s3 = pieces[0][1][len('theId'):], pieces[2][1], pieces[4][1]
        sep_ok = s1 == s2 and s1 != '' and not any(ch.isdigit() or ch in '-+.e' for ch in s1) and s3 == s1 + 'None'
    def descr():
        out = []
        for p_ in pieces:
            if p_[0] == 'lit': out.append(repr(p_[1]))
            elif p_[0] == 'decint': out.append('str(' + A.B.show_vec(A.B.trim(p_[1].vec() or [])) + ')')
            else: out.append(str(p_[0]))
        return ' + '.join(out)
    chk.check(shape_ok and sep_ok, 'HASH-DEPS', 'key-is-id-and-pk-raw-values', file=MSG, line=fn.lineno, func='add_data',
              expected="digest of: id, then for each field with part_of_primary_key, in field order, a non-numeric separator and str(raw_value); nothing else (message 'theId', fields raw1 key, raw2 not key, raw3 key, raw4 flag None, an absent key field whose raw value is None)",
              found=descr(), detail='' if shape_ok and sep_ok else 'a non-key field, the source, an ambiguous concatenation or a missing key field changes which messages share a hash')
    return True

def _defaulted(fn):
    """parameters of add_data beyond the ones the rules bind, with a constant default: name -> abstract value of the default"""
    from . import absint as A
    known = ('self', 'src', 'dest', 'priority', 'timestamp', 'source_iso_name', 'raw_can_data')
    a = fn.args
    out = {}
    pos = a.args
    for p_, d_ in list(zip(pos[len(pos) - len(a.defaults):], a.defaults)) + [(p_, d_) for p_, d_ in zip(a.kwonlyargs, a.kw_defaults) if d_ is not None]:
        if p_.arg in known or 'network' in p_.arg or 'map' in p_.arg or not isinstance(d_, ast.Constant):
            continue
        v = d_.value
        if v is None or isinstance(v, bool):
            out[p_.arg] = v
        elif isinstance(v, int):
            out[p_.arg] = A.AInt(v)
        elif isinstance(v, str):
            out[p_.arg] = A.AStr([('lit', v)])
    return out

class _HashInterp:
    """add_data under the abstract interpreter with hashlib modelled: a digest is the text '<hexdigest ALGO of TEXT>', so two digests are equal
    exactly when algorithm and digested text are.  One instance = one module state (whatever the module keeps between calls stays)."""
    ALGOS = ('md5', 'sha1', 'sha224', 'sha256', 'sha384', 'sha512', 'blake2b', 'blake2s', 'sha3_256', 'sha3_512')
    def __init__(self, program):
        from . import absint as A
        from .wire import is_logger
        self.A = A
        self.fn = program.fn('message', 'NMEA2000Message.add_data')
        cls = program.cls('message', 'NMEA2000Message')
        methods = {n.name: n for n in cls.body if isinstance(n, ast.FunctionDef)}
        funcs = {q: f for q, f in program.mod('message').defs.items() if '.' not in q}
        self.params = [a.arg for a in self.fn.args.args] + [a.arg for a in self.fn.args.kwonlyargs]
        self.it = A.Interp(hook=self.hook, skip=is_logger, methods=methods, functions=funcs, module=A.ModuleEnv(program.mod('message').tree))

    def text_of(self, a):
        A = self.A
        if isinstance(a, A.AStr):
            out = ''
            for p_ in a.pieces:
                if p_[0] == 'lit':
                    out += p_[1]
                elif p_[0] == 'decint' and isinstance(p_[1], A.AInt) and p_[1].v is not None:
                    out += str(p_[1].v)
                else:
                    raise A.Unknown('digested text is not concrete')
            return out
        if isinstance(a, A.ABytes) and all(x[0] == 'c' for x in a.items):
            return bytes(x[1] for x in a.items).decode('latin-1')
        raise A.Unknown(f"digested value not followed: {a!r}"[:80])

    def hook(self, it, call, env):
        A = self.A; ALGOS = self.ALGOS; text_of = self.text_of
        f = call.func
        if isinstance(f, ast.Name) and f.id == 'hash' and 'hash' not in env:
            raise A.Unknown('builtin hash()')
        algo = None
        if isinstance(f, ast.Attribute) and isinstance(f.value, ast.Name) and f.value.id == 'hashlib' and f.attr in ALGOS:
            algo = f.attr; args = [it.expr(a, env) for a in call.args]
        elif isinstance(f, ast.Name) and f.id in ALGOS and f.id not in env:
            algo = f.id; args = [it.expr(a, env) for a in call.args]
        elif isinstance(f, ast.Attribute) and isinstance(f.value, ast.Name) and f.value.id == 'hashlib' and f.attr == 'new':
            args = [it.expr(a, env) for a in call.args]
            if not args or not isinstance(args[0], A.AStr) or args[0].literal() is None:
                raise A.Unknown('hashlib.new(<abstract>)')
            algo, args = args[0].literal(), args[1:]
        if algo is not None:
            return A.AObj(hasher=algo, text=''.join(text_of(a) for a in args))
        if isinstance(f, ast.Attribute) and f.attr in ('update', 'hexdigest', 'digest', 'copy', 'hex'):
            try:
                o = it.expr(f.value, env)
            except A.Unknown:
                return NotImplemented
            if isinstance(o, A.AObj) and 'hasher' in o.attrs:
                if f.attr == 'update':
                    o.attrs['text'] += ''.join(text_of(it.expr(a, env)) for a in call.args)
                    return None
                if f.attr == 'copy':
                    return A.AObj(hasher=o.attrs['hasher'], text=o.attrs['text'])
                if f.attr in ('hexdigest', 'digest'):
                    return A.AStr([('lit', f"<{f.attr} {o.attrs['hasher']} of {o.attrs['text']!r}>")])
        return NotImplemented

    def hash_of(self, msg, bound=None, tag='?'):
        """add_data on `msg`; `bound`: parameter name -> abstract value as a call site binds them (left out: mapping on, source 7, the default of
        an optional parameter, opaque otherwise) -> the digest as text"""
        A = self.A
        bound = bound or {}
        dflt = _defaulted(self.fn)
        args = [msg]
        for p_ in self.params[1:]:
            if p_ in bound:
                args.append(bound[p_])
            elif 'network' in p_ or 'map' in p_:
                args.append(True)
            elif p_ in ('src', 'dest', 'priority'):
                args.append(A.AInt({'src': 7, 'dest': 255, 'priority': 3}[p_]))
            elif p_ == 'source_iso_name':
                args.append(None)
            elif p_ in dflt:
                args.append(dflt[p_])
            else:
                args.append(A.AOpaque(p_))
        npos = len(self.fn.args.args)
        self.it.call_function(self.fn, args[:npos], dict(zip(self.params[npos:], args[npos:])) or None)
        h = msg.attrs.get('hash')
        if not (isinstance(h, A.AStr) and h.literal() is not None):
            raise A.Unknown(f"hash of message {tag} not followed: {h!r}"[:100])
        return h.literal()

def _hfld(A, i, pk, raw):
    return A.AObj(id=A.AStr([('lit', f"f{i}")]), raw_value=A.AInt(raw), value=A.AInt(raw * 10), part_of_primary_key=pk, name=A.AStr([('lit', f"F{i}")]), unit_of_measurement=None,
                  physical_quantities=None, type=A.AOpaque('type'), description=None)

def hash_history(chk, program):
    """[HASH-HIST] the hash as a function of (definition id, raw values of the key fields) over a history: add_data interpreted (absint) on one
    module state -- whatever the module keeps between calls stays -- for five concrete messages in a row:
      A  id idA, PGN 130000, key 5, non-key 6, key 7      B  id idB, same PGN, same values      C  idA with the non-key field changed
      D  idA with a key field changed                     E  A again
    Required: hash(B) != hash(A), hash(C) == hash(A), hash(D) != hash(A), hash(E) == hash(A), every hash a hashlib digest.  Two digests are equal
    exactly when algorithm and digested text are.  -> True when the history was interpretable."""
    from . import absint as A
    fn = program.fn('message', 'NMEA2000Message.add_data')
    try:
        hi = _HashInterp(program)
        out = {}
        for tag, mid, vals in (('A', 'idA', (5, 6, 7)), ('B', 'idB', (5, 6, 7)), ('C', 'idA', (5, 99, 7)), ('D', 'idA', (5, 6, 8)), ('E', 'idA', (5, 6, 7)),
                               ('F', 'idA', (0, 6, 7)), ('G', 'idA', (7, 6, 0)), ('H', 'idA', (0, 6, 0))):
            msg = A.AObj(id=A.AStr([('lit', mid)]), PGN=A.AInt(130000), fields=A.AList([_hfld(A, 1, True, vals[0]), _hfld(A, 2, False, vals[1]), _hfld(A, 3, True, vals[2])]), hash=None,
                         description=A.AStr([('lit', 'descr')]), ttl=None)
            out[tag] = hi.hash_of(msg, tag=tag)
    except (A.Unknown, A.RaiseSignal, KeyError, TypeError, AttributeError) as u:
        chk.unit('hash_history_not_interpretable', f"{type(u).__name__}: {u}"[:160])
        return False
    for name, ok, exp in (('another-definition-same-PGN-same-keys', out['B'] != out['A'], 'a different hash than A (the definition id is part of the identity)'),
                          ('non-key-field-changed', out['C'] == out['A'], 'the hash of A'), ('key-field-changed', out['D'] != out['A'], 'a different hash than A'),
                          ('same-message-again', out['E'] == out['A'], 'the hash of A'),
                          ('zero-in-the-first-key-vs-zero-in-the-second', out['F'] != out['G'], 'different hashes: key values (0, 7) and (7, 0) are different identities'),
                          ('both-keys-zero', out['H'] not in (out['F'], out['G']), 'a hash of its own: a key value of 0 is a value, not an absent field')):
        chk.check(ok, 'HASH-DEPS', f"history::{name}", file=MSG, line=fn.lineno, func='add_data', expected=exp, found='ok' if ok else {k: v[:80] for k, v in out.items()},
                  detail='' if ok else 'something kept between calls (a cache keyed too coarsely) or a wrong input makes messages share / not share a hash')
    return True

def hash_rules(chk, program):
    fn = program.fn('message', 'NMEA2000Message.add_data')
    params = [a.arg for a in fn.args.args]
    hist = hash_history(chk, program)
    if hash_semantic(chk, program):
        _hash_order(chk, program)
        return
    # not interpretable: the structural reading below may confirm; what it does not recognise is a refusal, not an alarm
    from .rules_reasm import _ConfirmOnly
    real, chk = chk, _ConfirmOnly(chk, {'HASH-DEPS'})
    try:
        _hash_structural(chk, program, fn, params)
    finally:
        if chk.unrecognised:
            real.unknown('HASH-DEPS', 'add_data', f"neither interpretable nor of the recognised shape: {chk.unrecognised[:3]}", MSG, fn.lineno)
    _hash_order(real, program)

def _hash_structural(chk, program, fn, params):
    # hash = None unconditionally first; under build_network_map: hash = hashlib.<f>(key.encode()).hexdigest()
    top = [s for s in fn.body]
    ifs = [s for s in top if isinstance(s, ast.If)]
    flag = None
    for p in params:
        if 'network' in p or 'map' in p:
            flag = p
    hash_stores = [n for n in ast.walk(fn) if isinstance(n, ast.Assign) and any(isinstance(t, ast.Attribute) and t.attr == 'hash' for t in n.targets)]
    none_first = [n for n in top if isinstance(n, ast.Assign) and any(isinstance(t, ast.Attribute) and t.attr == 'hash' for t in n.targets) and isinstance(n.value, ast.Constant) and n.value.value is None]
    guarded = []
    for i in ifs:
        if isinstance(i.test, ast.Name) and i.test.id == flag:
            guarded = [n for n in ast.walk(i) if n in hash_stores]
    chk.check(bool(none_first) and len(hash_stores) == 2 and len(guarded) == 1, 'HASH-DEPS', 'hash-only-when-mapping', file=MSG, line=fn.lineno, func='add_data',
              expected=f"self.hash = None, and a digest only under `if {flag}`", found=[ast.unparse(h)[:70] for h in hash_stores])
    if not guarded:
        return
    hs = guarded[0]
    v = hs.value
    # hashlib.<algo>(X.encode()).hexdigest()
    algo = None; keyname = None
    if isinstance(v, ast.Call) and isinstance(v.func, ast.Attribute) and v.func.attr in ('hexdigest', 'digest') and isinstance(v.func.value, ast.Call):
        inner = v.func.value
        if isinstance(inner.func, ast.Attribute) and isinstance(inner.func.value, ast.Name) and inner.func.value.id == 'hashlib':
            algo = inner.func.attr
            a0 = inner.args[0] if inner.args else None
            if isinstance(a0, ast.Call) and isinstance(a0.func, ast.Attribute) and a0.func.attr == 'encode' and isinstance(a0.func.value, ast.Name):
                keyname = a0.func.value.id
    chk.check(algo in ('md5', 'sha1', 'sha256', 'blake2b', 'sha224', 'sha512') and keyname is not None, 'HASH-DEPS', 'process-independent-digest', file=MSG, line=hs.lineno, func='add_data',
              expected='hashlib.<algorithm>(key.encode()).hexdigest() -- never the per-process builtin hash()', found=ast.unparse(v)[:100])
    uses_builtin_hash = [n for n in ast.walk(fn) if isinstance(n, ast.Call) and isinstance(n.func, ast.Name) and n.func.id == 'hash']
    chk.check(not uses_builtin_hash, 'HASH-DEPS', 'no-builtin-hash', file=MSG, line=fn.lineno, func='add_data', expected='builtin hash() not used (salted per process)', found=len(uses_builtin_hash), nontrivial=False)
    if keyname is None:
        return
    # the key: initial value and the loop that extends it
    ifnode = [i for i in ifs if isinstance(i.test, ast.Name) and i.test.id == flag][0]
    init = [n for n in ifnode.body if isinstance(n, ast.Assign) and any(isinstance(t, ast.Name) and t.id == keyname for t in n.targets)]
    loops = [n for n in ifnode.body if isinstance(n, ast.For)]
    ex0 = sym.SymExec(fn)
    self_t = ('param', params[0])
    init_ok = False
    if len(init) == 1:
        t = ex0.expr(init[0].value)
        deps = {s_ for s_ in sym.walk(t) if s_[0] == 'attr' and s_[1] == self_t}
        init_ok = deps == {('attr', self_t, 'id')}
        chk.check(init_ok, 'HASH-DEPS', 'key-starts-with-id', file=MSG, line=init[0].lineno, func='add_data', expected='key starts from self.id only', found=show(t))
    else:
        chk.violation('HASH-DEPS', 'key-starts-with-id', file=MSG, line=ifnode.lineno, func='add_data', expected='one initial assignment of the key', found=len(init))
    chk.check(len(loops) == 1, 'HASH-DEPS', 'one-field-loop', file=MSG, line=ifnode.lineno, func='add_data', expected='one loop over self.fields', found=len(loops))
    if len(loops) == 1:
        lp = loops[0]
        it_ok = ast.unparse(lp.iter) == f"{params[0]}.fields"
        chk.check(it_ok, 'HASH-DEPS', 'iterates-fields-in-order', file=MSG, line=lp.lineno, func='add_data', expected='for f in self.fields (field order)', found=ast.unparse(lp.iter))
        ex = loop_body_events(fn, lp, extra_params=(keyname,))
        fvar = ('param', lp.target.id) if isinstance(lp.target, ast.Name) else None
        keyt = ex.state.env.get(keyname)
        # expected: key = ite(f.part_of_primary_key, key + sep + str(f.raw_value), key)
        ok = False
        found = show(keyt) if keyt else None
        if keyt is not None and keyt[0] == 'ite':
            c, a, b = keyt[1], keyt[2], keyt[3]
            if c == ('attr', fvar, 'part_of_primary_key') and b == ('param', keyname):
                deps = {s_ for s_ in sym.walk(a) if s_[0] == 'attr' and s_[1] == fvar}
                leaves = _sum_leaves(a)
                ok = deps == {('attr', fvar, 'raw_value')} and leaves and leaves[0] == ('param', keyname) and any(sym.is_const(x) and isinstance(x[1], str) and x[1] for x in leaves[1:-1]) \
                    and leaves[-1] == ('call', ('name', 'str'), (('attr', fvar, 'raw_value'),), ())
        chk.check(ok, 'HASH-DEPS', 'key-extended-by-pk-raw-values-only', file=MSG, line=lp.lineno, func='add_data',
                  expected='key += <separator> + str(f.raw_value) exactly for fields with part_of_primary_key; nothing else enters the key', found=found)
        other_writes = [e for e in ex.events if e[0] == 'store']
        chk.check(not other_writes, 'HASH-DEPS', 'loop-writes-nothing-else', file=MSG, line=lp.lineno, func='add_data', expected='no attribute written in the loop', found=[show(e[2]) for e in other_writes], nontrivial=False)
    # no statement between the loop and the digest changes the key
    idx_loop = ifnode.body.index(loops[0]) if loops else -1
    between = [s for s in ifnode.body[idx_loop + 1:] if s is not hs and any(isinstance(n, ast.Name) and n.id == keyname and isinstance(n.ctx, ast.Store) for n in ast.walk(s))]
    chk.check(not between, 'HASH-DEPS', 'key-not-modified-after-loop', file=MSG, line=hs.lineno, func='add_data', expected='digest of exactly the key built above', found=[ast.unparse(s)[:60] for s in between], nontrivial=False)
    _hash_order(chk, program)

def _sum_leaves(t):
    if t[0] == 'binop' and t[1] == '+':
        return _sum_leaves(t[2]) + _sum_leaves(t[3])
    return [t]

# ---------------------------------------------------------------------------
# C18
# ---------------------------------------------------------------------------
PHYS = {
    ('TEMPERATURE', 'c'): (Fraction(1), Fraction(-27315, 100), 'K -> degC'),
    ('TEMPERATURE', 'f'): (Fraction(9, 5), Fraction(-45967, 100), 'K -> degF'),
    ('PRESSURE', 'bar'): (Fraction(1, 100000), Fraction(0), 'Pa -> bar'),
    ('PRESSURE', 'psi'): (1 / 6894.757293168, 0.0, 'Pa -> psi'),
    ('ANGLE', 'deg'): (180 / math.pi, 0.0, 'rad -> deg'),
    ('SPEED', 'kts'): (Fraction(3600, 1852), Fraction(0), 'm/s -> kn'),
}

class NonAffine(Exception):
    pass

def affine(t, x):
    """(a, b, rounding digits or None) such that t = round(a*x + b, k) ; None if not affine in x"""
    k = t[0]
    if t == x:
        return (1.0, 0.0, None)
    if k == 'const' and isinstance(t[1], (int, float)) and not isinstance(t[1], bool):
        return (0.0, float(t[1]), None)
    if k == 'binop':
        l, r = affine(t[2], x), affine(t[3], x)
        if l is None or r is None:
            return None
        op = t[1]
        if op == '+': return (l[0] + r[0], l[1] + r[1], l[2] if l[2] is not None else r[2])
        if op == '-': return (l[0] - r[0], l[1] - r[1], l[2] if l[2] is not None else r[2])
        if op == '*':
            if l[0] == 0: return (l[1] * r[0], l[1] * r[1], r[2])
            if r[0] == 0: return (l[0] * r[1], l[1] * r[1], l[2])
            return None
        if op == '/':
            if r[0] == 0 and r[1] != 0: return (l[0] / r[1], l[1] / r[1], l[2])
            return None
        if op in ('%', '//', '**', '&', '|', '^', '<<', '>>') and (l[0] != 0 or r[0] != 0):
            raise NonAffine(f"operator {op} applied to the converted value")
        return None
    if k == 'call' and t[1] == ('name', 'round') and t[2]:
        inner = affine(t[2][0], x)
        if inner is None:
            return None
        if inner[2] is not None and inner[0] != 0:
            raise NonAffine('an intermediate result is rounded before it is converted further (rounded twice: ties of the first rounding move the final value by a whole step)')
        digits = 0
        if len(t[2]) > 1:
            if not sym.is_const(t[2][1]):
                return None
            digits = t[2][1][1]
        return (inner[0], inner[1], digits)
    if k == 'call' and t[1] == ('name', 'int') and len(t[2]) == 1:
        inner = affine(t[2][0], x)
        if inner is None:
            return None
        return (inner[0], inner[1], 'int-truncation')
    if k == 'call' and t[1] in (('attr', ('name', 'math'), 'floor'), ('attr', ('name', 'math'), 'trunc'), ('attr', ('name', 'math'), 'ceil')) and len(t[2]) == 1:
        inner = affine(t[2][0], x)
        if inner is None:
            return None
        return (inner[0], inner[1], t[1][2])
    if k == 'call' and t[1] == ('attr', ('name', 'math'), 'degrees') and len(t[2]) == 1:
        inner = affine(t[2][0], x)
        if inner is None:
            return None
        f = 180 / math.pi
        return (inner[0] * f, inner[1] * f, inner[2])
    return None

def _assume(t, p, is_none):
    """the term with `p is None` decided (and p replaced by None when it is): ite / and / or / not / comparisons folded.  A rounded or
    arithmetic value is never None."""
    if not isinstance(t, tuple) or not t or not isinstance(t[0], str):
        return t
    if t == p and is_none:
        return NONE
    k = t[0]
    if k == 'cmp' and t[1] in ('is', 'is not', '==', '!=') and (t[3] == NONE or t[2] == NONE):
        other = _assume(t[2] if t[3] == NONE else t[3], p, is_none)
        val = None
        if other == NONE:
            val = True
        elif other == p:
            val = is_none
        elif other[0] in ('binop', 'const') or (other[0] == 'call' and other[1] in (('name', 'round'), ('name', 'int'), ('name', 'float'), ('attr', ('name', 'math'), 'degrees'))):
            val = False
        if val is not None:
            return C(val if t[1] in ('is', '==') else not val)
    if k == 'ite':
        c = _assume(t[1], p, is_none)
        return sym.mk_ite(c, _assume(t[2], p, is_none), _assume(t[3], p, is_none))
    if k == 'unop' and t[1] == 'not':
        return sym.mk_not(_assume(t[2], p, is_none))
    if k == 'bool':
        vals = [_assume(x, p, is_none) for x in t[2]]
        if t[1] == 'and':
            if any(sym.truth(v) is False for v in vals): return C(False)
            vals = [v for v in vals if sym.truth(v) is not True]
            return C(True) if not vals else (vals[0] if len(vals) == 1 else ('bool', 'and', tuple(vals)))
        if any(sym.truth(v) is True for v in vals): return C(True)
        vals = [v for v in vals if sym.truth(v) is not False]
        return C(False) if not vals else (vals[0] if len(vals) == 1 else ('bool', 'or', tuple(vals)))
    out = [k]
    for x in t[1:]:
        if isinstance(x, tuple) and x and isinstance(x[0], str):
            out.append(_assume(x, p, is_none))
        elif isinstance(x, tuple):
            out.append(tuple(_assume(y, p, is_none) if isinstance(y, tuple) and y and isinstance(y[0], str) else y for y in x))
        else:
            out.append(x)
    return tuple(out)

def helper_affine(program, name):
    """a conversion helper of utils.py, the helpers it calls walked in place: under `argument is None` it must return None; under
    `argument is not None` every remaining path must return the same affine function of the argument, rounded at most once"""
    u = program.mod('utils')
    fn = u.defs.get(name)
    if fn is None:
        # defined in another module of the package (utils may only re-export it)
        for mname_, m_ in program.modules.items():
            if name in m_.defs and mname_ != 'pgns':
                u, fn = m_, m_.defs[name]
                break
    if fn is None:
        return None, f"{name} not found in the package"
    helpers = {q: f for q, f in u.defs.items() if '.' not in q and q != name}
    ex = sym.SymExec(fn, inline=helpers)
    try:
        ex.run()
    except sym.Unsupported as e:
        return None, str(e)
    p = ('param', ex.params[0])
    def outcomes(is_none):
        out = []
        for e in ex.events:
            if e[0] not in ('return', 'raise'):
                continue
            g = [_assume(x, p, is_none) for x in sym.conj(e[1])]
            if any(sym.truth(x) is False for x in g):
                continue
            undecided = [x for x in g if sym.truth(x) is None]
            out.append((e[0], undecided, _assume(e[2], p, is_none) if e[0] == 'return' else e[2]))
            if not undecided:
                break
        return out
    on_none = outcomes(True)
    none_ok = bool(on_none) and on_none[0][0] == 'return' and not on_none[0][1] and on_none[0][2] == NONE
    vals = outcomes(False)
    terms = {v for kind, g_, v in vals if kind == 'return'}
    if any(kind == 'raise' for kind, g_, v in vals) or len(terms) != 1:
        # several paths for a present value: a witness is a present value that comes back as absent (or raises) -- found by evaluating the extracted
        # terms (never repository code) at a few present values, zero among them
        from . import rules_help as _H, teval as _T
        rows_ = [e for e in ex.events if e[0] in ('return', 'raise')]
        for x in (0, 0.0, 1, -1, 2.5, 273.15, 100000):
            try:
                r_ = _H._eval_rows(rows_, {ex.params[0]: x})
            except (_T.EvalUnknown, KeyError, TypeError, ValueError, ZeroDivisionError, OverflowError):
                break
            if r_ == ('return', None) or r_[0] in ('raise', 'fall'):
                return {'present_lost': x, 'outcome': r_, 'line': fn.lineno}, None
        return None, f"{len(vals)} value-returning paths for a present value"
    term = next(iter(terms))
    try:
        a = affine(term, p)
    except NonAffine as e:
        return {'nonaffine': str(e), 'line': fn.lineno, 'term': show(term)}, None
    if a is None:
        # not affine as a term (a conditional inside the returned expression): a present value that comes back as absent is still a witness
        from . import rules_help as _H, teval as _T
        rows_ = [e for e in ex.events if e[0] in ('return', 'raise')]
        for x in (0, 0.0, 1, -1, 2.5, 273.15, 100000):
            try:
                r_ = _H._eval_rows(rows_, {ex.params[0]: x})
            except (_T.EvalUnknown, KeyError, TypeError, ValueError, ZeroDivisionError, OverflowError):
                break
            if r_ == ('return', None) or r_[0] in ('raise', 'fall'):
                return {'present_lost': x, 'outcome': r_, 'line': fn.lineno}, None
        return None, 'return value is not an affine function of the argument: ' + show(term)
    return {'a': a[0], 'b': a[1], 'digits': a[2], 'none_to_none': none_ok, 'line': fn.lineno, 'term': show(term)}, None

def _unit_rows(chk, program, fn, rows, f):
    exp = set(PHYS)
    chk.check(set(rows) == exp, 'UNIT-TABLE', 'recognised-preferences', file=MSG, line=fn.lineno, func='apply_preferred_units',
              expected=sorted(f"{a}/{b}" for a, b in exp), found=sorted(f"{a}/{b}" for a, b in rows))
    for (q, lit), row in sorted(rows.items()):
        inst = f"{q}/{lit}"
        chk.check(lit == lit.lower(), 'UNIT-NORM', inst, file=MSG, line=row.get('line', fn.lineno), func='apply_preferred_units', expected='lower-case literal (preferences are lower-cased by the decoder)', found=lit)
        chk.check('value' in row and 'label' in row and sym.is_const(row.get('label', NONE)) and isinstance(row['label'][1], str) and row['label'][1], 'UNIT-EFFECT', f"{inst}::both-rewritten",
                  file=MSG, line=row.get('line', fn.lineno), func='apply_preferred_units', expected='value and unit label rewritten together', found=sorted(row))
        v = row.get('value')
        if v is None or (q, lit) not in PHYS:
            continue
        okcall = v[0] == 'call' and v[1][0] == 'name' and v[2] == (('attr', f, 'value'),)
        chk.check(okcall, 'UNIT-TABLE', f"{inst}::converts-own-value", file=MSG, line=row['line'], func='apply_preferred_units', expected='f.value = helper(f.value)', found=show(v))
        if not okcall:
            continue
        info, why = helper_affine(program, v[1][1])
        if info is None:
            chk.unknown('UNIT-AFFINE', inst, why, UT, 0)
            continue
        if 'present_lost' in info:
            chk.violation('UNIT-AFFINE', f"{inst}::{v[1][1]}::present-stays-present", file=UT, line=info['line'], func=v[1][1], expected='a present value is converted (only None stays None)',
                          found=f"{v[1][1]}({info['present_lost']!r}) gives {info['outcome']}", detail='a reading of exactly zero (speed at the dock, heading north, no pressure) would be reported as absent')
            continue
        if 'nonaffine' in info:
            chk.violation('UNIT-AFFINE', f"{inst}::{v[1][1]}", file=UT, line=info['line'], func=v[1][1], expected='an affine map of the input (optionally rounded)', found=info['term'],
                          detail=info['nonaffine'] + ' -- a unit conversion is one linear map, rounded once')
            continue
        a, b, what = PHYS[(q, lit)]
        a, b = float(a), float(b)
        rel = lambda x, y: abs(x - y) <= 1e-3 * max(abs(y), 1e-12) if y != 0 else abs(x) < 1e-9
        chk.check(rel(info['a'], a) and (abs(info['b'] - b) < 5e-3), 'UNIT-AFFINE', f"{inst}::{v[1][1]}", file=UT, line=info['line'], func=v[1][1],
                  expected={'what': what, 'slope': a, 'intercept': b}, found={'slope': info['a'], 'intercept': info['b'], 'round_digits': info['digits'], 'term': info['term']})
        chk.check(info['digits'] is None or isinstance(info['digits'], int), 'UNIT-AFFINE', f"{inst}::{v[1][1]}::rounding", file=UT, line=info['line'], func=v[1][1],
                  expected='round(., k) (to nearest) or no rounding', found=info['digits'],
                  detail='int()/floor truncation is not rounding: e.g. negative angles come out one unit off')
        chk.check(info['none_to_none'], 'UNIT-AFFINE', f"{inst}::{v[1][1]}::absent-stays-absent", file=UT, line=info['line'], func=v[1][1], expected='None -> None first', found=info['none_to_none'])

def _unit_rest(chk, program, rows, fn):
    # decoder lower-cases preferences
    init = program.fn('decoder', 'NMEA2000Decoder.__init__')
    a = [n for n in ast.walk(init) if isinstance(n, ast.Assign) and any(isinstance(t, ast.Attribute) and t.attr == 'preferred_units' for t in n.targets)]
    # decided on the interpreted constructor: the preferences come out with the same keys and lower-cased values
    from . import rules_filter as F, absint as A
    try:
        got = F.interp_ctor(program, preferred={'QuantityA': 'KnOtS', 'QuantityB': 'c'}).get('preferred_units')
        chk.check(got == {'QuantityA': 'knots', 'QuantityB': 'c'}, 'UNIT-NORM', 'decoder-lower-cases-preferences', file='nmea2000/decoder.py', line=init.lineno, func='__init__',
                  expected="same quantities, unit names lower-cased ({'QuantityA': 'knots', 'QuantityB': 'c'})", found=got)
    except (A.Unknown, A.RaiseSignal) as u:
        ok = len(a) == 1 and isinstance(a[0].value, ast.DictComp) and isinstance(a[0].value.value, ast.Call) and isinstance(a[0].value.value.func, ast.Attribute) and a[0].value.value.func.attr == 'lower' \
            and isinstance(a[0].value.key, ast.Name)
        if ok:
            chk.ok('UNIT-NORM', 'decoder-lower-cases-preferences', file='nmea2000/decoder.py', line=a[0].lineno, func='__init__')
        else:
            chk.unknown('UNIT-NORM', 'decoder-lower-cases-preferences', f"constructor neither interpretable ({u}) nor of the recognised shape", 'nmea2000/decoder.py', init.lineno)
    dfn = program.fn('decoder', 'NMEA2000Decoder._call_decode_function')
    calls = [n for n in ast.walk(dfn) if isinstance(n, ast.Call) and isinstance(n.func, ast.Attribute) and n.func.attr == 'apply_preferred_units']
    chk.check(len(calls) == 1 and ast.unparse(calls[0].args[0]) == 'self.preferred_units', 'UNIT-NORM', 'decoder-passes-its-preferences', file='nmea2000/decoder.py',
              line=calls[0].lineno if calls else dfn.lineno, func='_call_decode_function', expected='apply_preferred_units(self.preferred_units)', found=[ast.unparse(c) for c in calls])
    # database: quantities with a conversion exist as enum members and fields carrying them use the SI unit the helper assumes
    db = program.db
    si = {'TEMPERATURE': 'K', 'PRESSURE': 'Pa', 'ANGLE': 'rad', 'SPEED': 'm/s'}
    n = 0
    for d in db.defs:
        for fl in d.fields:
            if fl.quantity in si:
                n += 1
                if fl.unit != si[fl.quantity]:
                    # the database marks this field with the quantity but another unit: converting it as if it were SI is wrong,
                    # so every row of that quantity must be guarded by the source unit
                    guarded = all(all(ug == si[fl.quantity] for ug in row.get('unit_guards', [None])) for (q, lit), row in rows.items() if q == fl.quantity)
                    chk.check(guarded, 'UNIT-TABLE', f"db::{d.key}::{fl.dbid}", file=MSG, line=fn.lineno, func='apply_preferred_units',
                              expected=f"conversion of {fl.quantity} applied only to values in {si[fl.quantity]} (this database field is in {fl.unit!r})",
                              found='converted regardless of the source unit',
                              detail=f"with the preference set, a value already in {fl.unit} is pushed through the {si[fl.quantity]} conversion")
    chk.ok('UNIT-TABLE', 'db::convertible-fields', file='canboat.json', line=0, found=f"{n} fields carry a convertible quantity")
    chk.unit('convertible_fields', n)


SI_UNIT = {'TEMPERATURE': 'K', 'PRESSURE': 'Pa', 'ANGLE': 'rad', 'SPEED': 'm/s'}

def unit_semantic(chk, program):
    """NMEA2000Message.apply_preferred_units interpreted (absint): one message with a field per quantity (SI unit, symbolic value and raw value), an
    ANGLE field already in degrees and a field of a quantity without conversion; one preference at a time, for every literal the function knows
    and a few it must not know.  -> rows {(quantity, literal): {'helper': name, 'label': text, 'line': n}} or None when not interpretable.
    Obligations: a recognised preference rewrites value (through one converter applied to the field's own value) and unit label together; anything
    else is untouched -- raw values, fields of other quantities, the ANGLE field that is not in rad, every field under an unrecognised preference."""
    from . import absint as A
    from .wire import is_logger
    fn = program.fn('message', 'NMEA2000Message.apply_preferred_units')
    mod = program.mod('message')
    menv = A.ModuleEnv(mod.tree)
    cls = program.cls('message', 'NMEA2000Message')
    methods = {n.name: n for n in cls.body if isinstance(n, ast.FunctionDef)}
    converters = {q for q in program.mod('utils').defs if '.' not in q}
    # module-level functions of the other hand-written modules: a field value handed to one of them (and nothing else) is a conversion by that function,
    # judged on its own by UNIT-AFFINE
    for mname_, m_ in program.modules.items():
        if mname_ not in ('pgns', 'message', 'decoder', 'encoder', 'ioclient'):
            converters |= {q for q in m_.defs if '.' not in q}
    lits = sorted({l for (_, l) in PHYS} | {'zz', 'k', 'pa', 'rad', 'm/s', 'knots', 'C', 'celsius'})
    # one field per convertible quantity, and one per every other quantity the database uses (PRESSURE_RATE, ANGULAR_VELOCITY ...: never converted)
    other_q = sorted({fl.quantity for d in program.db.defs for fl in d.fields if fl.quantity and fl.quantity not in SI_UNIT})
    quantities = list(SI_UNIT) + (other_q or ['LENGTH'])
    db_units = sorted({(fl.quantity, fl.unit) for d in program.db.defs for fl in d.fields if fl.quantity in SI_UNIT and fl.unit != SI_UNIT[fl.quantity] and fl.unit})
    def build():
        fs = []
        for j, (q_, u_) in enumerate(db_units):
            o = A.AObj(id=A.AStr([('lit', f"dbu{j}")]), physical_quantities=A.AOpaque(f"PhysicalQuantities.{q_}"), unit_of_measurement=A.AStr([('lit', u_)]),
                       value=A.sym_int(f"valu{j}", 32), raw_value=A.sym_int(f"rawu{j}", 32), part_of_primary_key=False, name=None, description=None, type=A.AOpaque('FieldTypes.NUMBER'))
            o.attrs['__q__'] = f"{q_}({u_})"
            fs.append(o)
        for i, q in enumerate(quantities):
            o = A.AObj(id=A.AStr([('lit', f"f{i}")]), physical_quantities=A.AOpaque(f"PhysicalQuantities.{q}"), unit_of_measurement=A.AStr([('lit', SI_UNIT.get(q, 'm'))]),
                       value=A.sym_int(f"val{i}", 32), raw_value=A.sym_int(f"raw{i}", 32), part_of_primary_key=False, name=None, description=None, type=A.AOpaque('FieldTypes.NUMBER'))
            o.attrs['__q__'] = q
            fs.append(o)
        deg = A.AObj(id=A.AStr([('lit', 'already_deg')]), physical_quantities=A.AOpaque('PhysicalQuantities.ANGLE'), unit_of_measurement=A.AStr([('lit', 'deg')]),
                     value=A.sym_int('valdeg', 32), raw_value=A.sym_int('rawdeg', 32), part_of_primary_key=False, name=None, description=None, type=A.AOpaque('FieldTypes.NUMBER'))
        deg.attrs['__q__'] = 'ANGLE(deg)'
        noq = A.AObj(id=A.AStr([('lit', 'noq')]), physical_quantities=None, unit_of_measurement=None, value=A.sym_int('valn', 32), raw_value=A.sym_int('rawn', 32),
                     part_of_primary_key=False, name=None, description=None, type=A.AOpaque('FieldTypes.NUMBER'))
        noq.attrs['__q__'] = 'none'
        extra = []
        for j, (q_, u_) in enumerate(sorted(SI_UNIT.items())):
            # the SI unit label of a convertible quantity on a field that has no physical quantity (an offset, a rate): not a value of that quantity
            o = A.AObj(id=A.AStr([('lit', f"nq{j}")]), physical_quantities=None, unit_of_measurement=A.AStr([('lit', u_)]), value=A.sym_int(f"valq{j}", 32), raw_value=A.sym_int(f"rawq{j}", 32),
                       part_of_primary_key=False, name=None, description=None, type=A.AOpaque('FieldTypes.NUMBER'))
            o.attrs['__q__'] = f"none({u_})"
            extra.append(o)
        return fs + [deg, noq] + extra
    def snap(fs):
        return [(f.attrs['value'], f.attrs['unit_of_measurement'], f.attrs['raw_value']) for f in fs]
    def run(prefs, layout=0):
        def hook(it, call, env):
            f = call.func
            cv = None
            if isinstance(f, ast.Name) and f.id not in env and f.id in converters and f.id not in menv.funcs:
                cv = f.id
            elif isinstance(f, (ast.Name, ast.Subscript, ast.Attribute)) and not (isinstance(f, ast.Attribute) and not isinstance(f.value, ast.Name)):
                try:
                    v = it.expr(f, env) if not isinstance(f, ast.Name) or f.id in env else None
                except A.Unknown:
                    v = None
                if isinstance(v, A.AOpaque) and v.what in converters:
                    cv = v.what
                elif isinstance(v, A.AFunc) and getattr(v.fn, 'name', None) in converters and getattr(v.fn, 'name', None) not in menv.funcs:
                    cv = v.fn.name          # a converter of utils reached through a table / an alias: followed to its definition by the module environment
            if cv is not None:
                args = [it.expr(a, env) for a in call.args]
                return A.AObj(converted_by=cv, of=args[0] if len(args) == 1 else None, line=call.lineno)
            return NotImplemented
        fs = build()
        if layout:
            fs = fs[::-1]          # another message of the same PGN whose fields are laid out differently (another definition of the number)
        msg = A.AObj(fields=A.AList(fs), PGN=A.AInt(1), id=A.AStr([('lit', 'x')]))
        before = snap(fs)
        pd = A.ADict({f"PhysicalQuantities.{q}": A.AStr([('lit', l)]) for q, l in prefs.items()})
        A.Interp(hook=hook, skip=is_logger, methods=methods, module=menv).call_function(fn, [msg, pd])
        return fs, before, snap(fs)
    rows = {}
    problems = []
    try:
        fs, b, a = run({})
        if a != b:
            problems.append('an empty preference map changes fields')
        for q in SI_UNIT:
            for lit in lits:
                fs, b, a = run({q: lit})
                for f, (v0, u0, r0), (v1, u1, r1) in zip(fs, b, a):
                    fq = f.attrs['__q__']
                    if r1 is not r0:
                        problems.append(f"preference {q}={lit}: raw value of the {fq} field rewritten")
                    changed = (v1 is not v0) or (u1 is not u0 and (not isinstance(u1, A.AStr) or not isinstance(u0, A.AStr) or u1.literal() != u0.literal()))
                    if fq != q:
                        if changed:
                            problems.append(f"preference {q}={lit} changes the {fq} field")
                        continue
                    if not changed:
                        continue
                    okv = isinstance(v1, A.AObj) and v1.attrs.get('of') is v0 and isinstance(v1.attrs.get('converted_by'), str)
                    oku = isinstance(u1, A.AStr) and u1.literal() not in (None, '') and u1.literal() != u0.literal()
                    if not (okv and oku):
                        problems.append(f"preference {q}={lit}: value and unit label are not rewritten together (value {'converted' if okv else 'not converted / not by one converter of its own value'}, label {u1!r})")
                        continue
                    rows[(q, lit)] = {'helper': v1.attrs['converted_by'], 'label': u1.literal(), 'line': v1.attrs.get('line', fn.lineno)}
        # the same preferences on a message of the same PGN with another field order: what an earlier message left behind (positions, verdicts) must not decide
        for (q, lit) in sorted(rows):
            fs, b, a = run({q: lit}, layout=1)
            for f, (v0, u0, r0), (v1, u1, r1) in zip(fs, b, a):
                fq = f.attrs['__q__']
                changed = (v1 is not v0) or (u1 is not u0 and (not isinstance(u1, A.AStr) or not isinstance(u0, A.AStr) or u1.literal() != u0.literal()))
                if r1 is not r0:
                    problems.append(f"preference {q}={lit}, second layout: raw value of the {fq} field rewritten")
                elif fq != q and changed:
                    problems.append(f"preference {q}={lit} changes the {fq} field of a message whose fields are ordered differently from an earlier one of the same PGN")
                elif fq == q and not changed:
                    problems.append(f"preference {q}={lit} is not applied to the {fq} field of a message whose fields are ordered differently from an earlier one of the same PGN")
                elif fq == q and not (isinstance(v1, A.AObj) and v1.attrs.get('of') is v0 and v1.attrs.get('converted_by') == rows[(q, lit)]['helper']):
                    problems.append(f"preference {q}={lit}: the {fq} field of a differently ordered message is converted differently")
        # two preferences at once: each quantity follows its own
        fs, b, a = run({'TEMPERATURE': 'c', 'PRESSURE': 'bar'})
        for f, (v0, u0, r0), (v1, u1, r1) in zip(fs, b, a):
            if f.attrs['__q__'] in ('TEMPERATURE', 'PRESSURE') and (f.attrs['__q__'], {'TEMPERATURE': 'c', 'PRESSURE': 'bar'}[f.attrs['__q__']]) in rows and v1 is v0:
                problems.append('with two preferences given, one of them is ignored')
    except (A.Unknown, A.RaiseSignal) as u:
        chk.unit('apply_preferred_units_not_interpretable', str(u))
        return None
    chk.check(not problems, 'UNIT-EFFECT', 'only-value-and-label-of-the-matching-quantity', file=MSG, line=fn.lineno, func='apply_preferred_units',
              expected='a recognised preference rewrites value and unit label of the fields of that quantity (ANGLE only when in rad); raw values, other fields and unrecognised preferences: untouched',
              found=problems[:4] or 'ok')
    return rows

def unit_applied(chk, program, rule='UNIT-APPLIED'):
    """every message the decoder returns went through apply_preferred_units with the decoder's preferences: in _call_decode_function, on every
    path from the entry to a return of something other than None, a call `<x>.apply_preferred_units(..)` has completed -- except on paths that
    are only possible when there are no preferences (`if self.preferred_units:` around the call changes nothing).  A bypass decided by anything
    about the message, the arguments or mutable decoder state is a message returned unconverted; one decided by construction-time configuration
    only is not judged here (reported as undecided)."""
    from .cfg import CFG, must_fact, implied_edges
    from .rules_client import nodes_calling
    fn = program.fn('decoder', 'NMEA2000Decoder._call_decode_function')
    g = CFG(fn)
    gens = sorted({nid for nid, c in nodes_calling(g, lambda c: isinstance(c.func, ast.Attribute) and c.func.attr == 'apply_preferred_units')})
    if not gens:
        chk.violation(rule, '_call_decode_function::conversion-called', file=DEC, line=fn.lineno, func='_call_decode_function',
                      expected='the message is passed through apply_preferred_units before it is returned', found='no call of apply_preferred_units in _call_decode_function (helpers inlined)')
        return
    def is_prefs(e):
        return isinstance(e, ast.Attribute) and e.attr == 'preferred_units' and isinstance(e.value, ast.Name) and e.value.id == 'self'
    def world(e):          # the world "preferences were given"
        if is_prefs(e):
            return True
        if isinstance(e, ast.Call) and isinstance(e.func, ast.Name) and e.func.id in ('len', 'bool') and len(e.args) == 1 and is_prefs(e.args[0]):
            return True
        if isinstance(e, ast.Compare) and len(e.ops) == 1 and isinstance(e.left, ast.Call) and isinstance(e.left.func, ast.Name) and e.left.func.id == 'len' \
                and len(e.left.args) == 1 and is_prefs(e.left.args[0]) and isinstance(e.comparators[0], ast.Constant) and e.comparators[0].value == 0:
            return {ast.Gt: True, ast.NotEq: True, ast.Eq: False, ast.LtE: False}.get(type(e.ops[0]), NotImplemented)
        return NotImplemented
    done = must_fact(g, gen_nodes=gens, gen_edges=implied_edges(g, world))
    rets = [n for n in g.nodes if n.kind == 'stmt' and isinstance(n.ast, ast.Return) and n.ast.value is not None
            and not (isinstance(n.ast.value, ast.Constant) and n.ast.value.value is None)]
    init = program.fn('decoder', 'NMEA2000Decoder.__init__')
    config = {n.attr for n in ast.walk(init) if isinstance(n, ast.Attribute) and isinstance(n.ctx, ast.Store) and isinstance(n.value, ast.Name) and n.value.id == 'self'}
    mutated = set()
    for q, f in program.mod('decoder').defs.items():
        if q.startswith('NMEA2000Decoder.') and q != 'NMEA2000Decoder.__init__':
            for n in ast.walk(f):
                if isinstance(n, ast.Attribute) and isinstance(n.value, ast.Name) and n.value.id == 'self':
                    par = getattr(n, '_parent', None)
                    if isinstance(n.ctx, (ast.Store, ast.Del)):
                        mutated.add(n.attr)
                if isinstance(n, ast.Call) and isinstance(n.func, ast.Attribute) and isinstance(n.func.value, ast.Attribute) and isinstance(n.func.value.value, ast.Name) \
                        and n.func.value.value.id == 'self' and n.func.attr in ('add', 'append', 'update', 'pop', 'remove', 'discard', 'clear', 'setdefault', 'extend', 'insert', 'popitem'):
                    mutated.add(n.func.value.attr)
                if isinstance(n, ast.Subscript) and isinstance(n.ctx, (ast.Store, ast.Del)) and isinstance(n.value, ast.Attribute) and isinstance(n.value.value, ast.Name) and n.value.value.id == 'self':
                    mutated.add(n.value.attr)
    for r in rets:
        inst = f"_call_decode_function::return@{ast.unparse(r.ast.value)[:30]}::converted-on-every-path"
        if done[r.id]:
            chk.ok(rule, inst, file=DEC, line=r.line, func='_call_decode_function', nontrivial=True)
            continue
        # the tests that decide the bypass: one outcome can still reach a conversion, another reaches this return around every conversion
        around = g.reach(g.entry.id, avoid=gens, include_src=True)
        deciding = []
        for t in g.nodes:
            if t.kind != 'test' or t.id not in around:
                continue
            outs = {}
            for v, lab in g.succ[t.id]:
                if lab == 'exc':
                    continue
                byp = (v == r.id or r.id in g.reach(v, avoid=gens)) and v not in gens
                conv = v in gens or any(x in gens for x in g.reach(v))
                outs[lab] = (byp, conv)
            if any(b for b, c in outs.values()) and any(c and not b for b, c in outs.values()):
                deciding.append(t)
        reads_cfg_only = bool(deciding)
        why = []
        for t in deciding:
            for n in ast.walk(t.ast.test):
                if isinstance(n, ast.Attribute) and isinstance(n.value, ast.Name) and n.value.id == 'self':
                    if n.attr not in config or n.attr in mutated:
                        reads_cfg_only = False; why.append(f"self.{n.attr} (changes while decoding)")
                elif isinstance(n, ast.Name) and n.id != 'self' and not (isinstance(getattr(n, '_parent', None), ast.Attribute) and False):
                    if n.id not in ('len', 'bool', 'not', 'None', 'True', 'False', 'isinstance'):
                        reads_cfg_only = False; why.append(n.id)
        tests = [f"line {t.line}: {ast.unparse(t.ast.test)[:70]}" for t in deciding]
        if deciding and reads_cfg_only:
            chk.unknown(rule, inst, f"a return is reachable around the conversion, decided by construction-time configuration only: {tests}", DEC, r.line)
        else:
            chk.violation(rule, inst, file=DEC, line=r.line, func='_call_decode_function',
                          expected='with preferences given, every returned message has been through apply_preferred_units',
                          found=f"the return at line {r.line} is reachable without the conversion" + (f"; decided by {tests[:3]}" if tests else ''),
                          detail=('the bypass depends on ' + ', '.join(sorted(set(why))[:4])) if why else '')

def unit_rules(chk, program):
    fn = program.fn('message', 'NMEA2000Message.apply_preferred_units')
    params = [a.arg for a in fn.args.args]
    sem_rows = unit_semantic(chk, program)
    if sem_rows is not None:
        f = ('param', '$field')
        # a database field of that quantity in another unit stays untouched (checked by only-value-and-label-of-the-matching-quantity): the rows count as guarded by the SI unit
        rows = {k: {'value': ('call', ('name', v['helper']), (('attr', f, 'value'),), ()), 'label': C(v['label']), 'line': v['line'], 'unit_guards': [SI_UNIT[k[0]]]} for k, v in sem_rows.items()}
        _unit_rows(chk, program, fn, rows, f)
        _unit_rest(chk, program, rows, fn)
        return
    # not interpretable: the structural reading below may confirm; what it does not recognise is a refusal, not an alarm
    from .rules_reasm import _ConfirmOnly
    real = chk
    co = _ConfirmOnly(real, {'UNIT-EFFECT', 'UNIT-TABLE', 'UNIT-AFFINE', 'UNIT-NORM', 'UNIT-APPLIED', 'UNIT-LABEL'})
    co.units = getattr(real, 'units', {})
    try:
        _unit_structural(co, program, fn, params)
    finally:
        if co.unrecognised:
            real.unknown('UNIT-EFFECT', 'apply_preferred_units', f"neither interpretable nor of the recognised shape: {co.unrecognised[:3]}", MSG, fn.lineno)

def _unit_structural(chk, program, fn, params):
    loops = [s for s in fn.body if isinstance(s, ast.For)]
    if len(loops) != 1 or ast.unparse(loops[0].iter) != f"{params[0]}.fields":
        raise AnalysisError('apply_preferred_units: loop over self.fields not found')
    lp = loops[0]
    # early exit on an empty preference map is fine; anything else before the loop is inspected
    for s in fn.body:
        if s is lp or (isinstance(s, ast.Expr) and isinstance(s.value, ast.Constant)):
            continue
        okpre = isinstance(s, ast.If) and all(isinstance(b, ast.Return) for b in s.body) and not s.orelse
        chk.check(okpre, 'UNIT-EFFECT', f"pre-loop::{ast.unparse(s)[:40]}", file=MSG, line=s.lineno, func='apply_preferred_units', expected='only an early return before the loop', found=ast.unparse(s)[:60], nontrivial=False)
    ex = loop_body_events(fn, lp)
    f = ('param', lp.target.id)
    prefs = ('param', params[1])
    stores = [e for e in ex.events if e[0] == 'store']
    others = [e for e in ex.events if e[0] not in ('store',)]
    for e in others:
        if e[0] in ('return', 'raise', 'expr', 'del'):
            chk.violation('UNIT-EFFECT', f"loop::{e[0]}@{show(e[2])[:40]}", file=MSG, line=e[-1], func='apply_preferred_units', expected='only guarded stores in the loop', found=e[0])
    rows = {}
    for e in stores:
        tgt, val = e[2], e[3]
        ok_tgt = tgt[0] == 'attr' and tgt[1] == f and tgt[2] in ('value', 'unit_of_measurement')
        chk.check(ok_tgt, 'UNIT-EFFECT', f"store::{show(tgt)}", file=MSG, line=e[-1], func='apply_preferred_units', expected='only f.value and f.unit_of_measurement are written', found=show(tgt))
        if not ok_tgt:
            continue
        q = None; lit = None
        for g in sym.conj(e[1]):
            if g[0] == 'cmp' and g[1] == '==':
                for a, b in ((g[2], g[3]), (g[3], g[2])):
                    if a == ('attr', f, 'physical_quantities') and b[0] == 'attr' and b[1] == ('name', 'PhysicalQuantities'):
                        q = b[2]
                    if sym.is_const(b) and isinstance(b[1], str) and a[0] == 'call' and a[1] == ('attr', prefs, 'get') and a[2] and a[2][0][0] == 'attr' and a[2][0][1] == ('name', 'PhysicalQuantities'):
                        lit = (a[2][0][2], b[1])
        if q is None or lit is None:
            chk.violation('UNIT-EFFECT', f"store-guard::{show(tgt)}@{e[-1]}", file=MSG, line=e[-1], func='apply_preferred_units',
                          expected="store guarded by the field's physical quantity and by the requested unit", found=[show(g)[:80] for g in e[1]])
            continue
        chk.check(q == lit[0], 'UNIT-TABLE', f"{q}/{lit[1]}::same-quantity", file=MSG, line=e[-1], func='apply_preferred_units', expected=f"preference looked up for {q}", found=lit[0], nontrivial=False)
        row = rows.setdefault((q, lit[1]), {})
        ug = None
        for g in sym.conj(e[1]):
            if g[0] == 'cmp' and g[1] == '==':
                for a, b in ((g[2], g[3]), (g[3], g[2])):
                    if a == ('attr', f, 'unit_of_measurement') and sym.is_const(b):
                        ug = b[1]
        row.setdefault('unit_guards', []).append(ug)
        if tgt[2] == 'value':
            row['value'] = val; row['line'] = e[-1]
        else:
            row['label'] = val
    _unit_rows(chk, program, fn, rows, f)
    _unit_rest(chk, program, rows, fn)
