"""rules_decoder.py -- reassembly (C04), source map (C11) and isolation (C16) rules over nmea2000/decoder.py."""
from __future__ import annotations

import ast

from . import sym, teval, rules_filter as F
from .sym import C, NONE, show
from .cfg import CFG, walk_no_nested, _own_exprs
from .model import AnalysisError

DEC = 'nmea2000/decoder.py'
CLS = 'NMEA2000Decoder'

def reach_without_edge(g, src, edge):
    """nodes reachable from src when the edge (u, label) is removed"""
    u0, lab0 = edge
    seen = {src}; stack = [src]
    while stack:
        u = stack.pop()
        for v, l in g.succ[u]:
            if u == u0 and l == lab0:
                continue
            if v not in seen:
                seen.add(v); stack.append(v)
    return seen

def skey(node):
    try:
        return ast.unparse(node).split('\n')[0][:60].replace(' ', '')
    except Exception:
        return type(node).__name__

# ---------------------------------------------------------------------------
# C04
# ---------------------------------------------------------------------------
import copy

class _Subst(ast.NodeTransformer):
    def __init__(self, mapping):
        self.mapping = mapping
    def visit_Name(self, node):
        if node.id in self.mapping:
            return copy.deepcopy(self.mapping[node.id])
        return node

def inline_record_methods(fn, rec_cls):
    """statement-level calls `<name>.<method>(args)` of methods defined by the record class are replaced by the method body
    (self -> receiver, parameters -> argument expressions).  Only straight-line methods without return values are inlined, so that a
    refactoring which moves the record's reset / bookkeeping into helper methods is analysed exactly like the open-coded form."""
    methods = {n.name: n for n in rec_cls.body if isinstance(n, ast.FunctionDef) and n.name not in ('__init__', '__repr__', '__str__')}
    if not methods:
        return fn
    fn = copy.deepcopy(fn)
    def rewrite(stmts):
        out = []
        for st in stmts:
            for field in ('body', 'orelse', 'finalbody'):
                if hasattr(st, field) and isinstance(getattr(st, field), list):
                    setattr(st, field, rewrite(getattr(st, field)))
            if isinstance(st, ast.Try):
                for h in st.handlers:
                    h.body = rewrite(h.body)
            call = st.value if isinstance(st, ast.Expr) and isinstance(st.value, ast.Call) else None
            if call is not None and isinstance(call.func, ast.Attribute) and isinstance(call.func.value, ast.Name) and call.func.attr in methods:
                m = methods[call.func.attr]
                params = [a.arg for a in m.args.args]
                simple = all(not isinstance(x, (ast.Return,)) or x.value is None for x in ast.walk(m)) and not any(isinstance(x, (ast.For, ast.While, ast.Try, ast.With)) for x in ast.walk(m))
                if simple and len(call.args) == len(params) - 1 and not call.keywords:
                    mapping = {params[0]: call.func.value}
                    for p_, a_ in zip(params[1:], call.args):
                        mapping[p_] = a_
                    body = [copy.deepcopy(b) for b in m.body if not (isinstance(b, ast.Expr) and isinstance(b.value, ast.Constant))]
                    body = [_Subst(mapping).visit(b) for b in body if not isinstance(b, ast.Return)]
                    for b in body:
                        ast.fix_missing_locations(b)
                    out.extend(body or [ast.copy_location(ast.Pass(), st)])
                    continue
            out.append(st)
        return out
    fn.body = rewrite(fn.body)
    return fn

def reassembly(chk, program):
    fn = inline_record_methods(program.fn('decoder', f"{CLS}._decode_fast_message"), program.cls('decoder', 'fast_pgn_metadata'))
    g = CFG(fn)
    ex = sym.SymExec(fn)
    try:
        ex.run()
    except sym.Unsupported as u:
        raise AnalysisError(f"_decode_fast_message: {u}")
    rec_cls = program.cls('decoder', 'fast_pgn_metadata')
    rinit = inline_record_methods(program.fn('decoder', 'fast_pgn_metadata.__init__'), rec_cls)
    rec_attrs = sorted({t.attr for n in ast.walk(rinit) if isinstance(n, (ast.Assign, ast.AnnAssign)) for t in (n.targets if isinstance(n, ast.Assign) else [n.target])
                        if isinstance(t, ast.Attribute) and isinstance(t.value, ast.Name) and t.value.id == 'self'})
    if len(rec_attrs) < 3:
        raise AnalysisError('fast_pgn_metadata.__init__: record attributes not found')
    chk.unit('record_attributes', rec_attrs)
    params = [a.arg for a in fn.args.args]
    # ---- RA-KEY
    data_accesses = []
    for e in ex.events:
        for t in e[2:-1]:
            if isinstance(t, tuple):
                for s_ in sym.walk(t):
                    if s_[0] == 'sub' and s_[1] == ('attr', ('param', 'self'), 'data'):
                        data_accesses.append((s_[2], e[-1]))
                    if s_[0] == 'call' and s_[1] == ('attr', ('attr', ('param', 'self'), 'data'), 'get') and s_[2]:
                        data_accesses.append((s_[2][0], e[-1]))
        for gterm in e[1]:
            for s_ in sym.walk(gterm):
                if s_[0] == 'call' and s_[1] == ('attr', ('attr', ('param', 'self'), 'data'), 'get') and s_[2]:
                    data_accesses.append((s_[2][0], e[-1]))
    keys = {k for k, _ in data_accesses}
    chk.check(len(keys) == 1 and len(data_accesses) >= 3, 'RA-KEY', 'one-key', file=DEC, line=fn.lineno, func='_decode_fast_message',
              expected='every access to the buffer map uses the same key', found=[show(k) for k in keys])
    if keys:
        k = next(iter(keys))
        deps = [s_[1] for s_ in sym.walk(k) if s_[0] == 'param']
        seps = [p[1] for p in k[1] if p[0] == 'const'] if k[0] == 'fstr' else []
        need = {'pgn', 'src', 'dest'}
        oksep = k[0] == 'fstr' and all(isinstance(s, str) and s and not any(ch.isdigit() or ch == '-' for ch in s) for s in seps) and _alternates(k)
        chk.check(set(deps) >= need and oksep, 'RA-KEY', 'key-depends-on-pgn-src-dest', file=DEC, line=data_accesses[0][1], func='_decode_fast_message',
                  expected='key = f"{pgn}<sep>{src}<sep>{dest}" with a non-numeric separator between every two numbers', found=show(k),
                  detail='' if set(deps) >= need else f"streams that differ only in {sorted(need - set(deps))} share one reassembly buffer")
    # ---- locate nodes
    def nodes(pred):
        return [n for n in g.nodes if n.kind in ('stmt', 'test') and pred(n)]
    def is_rec_attr_store(t):
        return isinstance(t, ast.Attribute) and t.attr in rec_attrs and isinstance(t.value, ast.Name) and t.value.id != 'self'
    frame_store = nodes(lambda n: n.kind == 'stmt' and isinstance(n.ast, ast.Assign) and any(isinstance(t, ast.Subscript) and isinstance(t.value, ast.Attribute) and t.value.attr == 'frames' for t in n.ast.targets))
    if len(frame_store) != 1:
        raise AnalysisError(f"_decode_fast_message: expected one frame store, found {len(frame_store)}")
    S = frame_store[0]
    fc_name = ast.unparse(S.ast.targets[0].slice)
    rec_writes = nodes(lambda n: n.kind == 'stmt' and (
        (isinstance(n.ast, (ast.Assign, ast.AugAssign)) and any(is_rec_attr_store(t) or (isinstance(t, ast.Subscript) and is_rec_attr_store(t.value))
                                                               for t in (n.ast.targets if isinstance(n.ast, ast.Assign) else [n.ast.target])))
        or (isinstance(n.ast, ast.Expr) and isinstance(n.ast.value, ast.Call) and isinstance(n.ast.value.func, ast.Attribute) and n.ast.value.func.attr in ('clear', 'pop', 'update')
            and is_rec_attr_store(n.ast.value.func.value))))
    tests = [n for n in g.nodes if n.kind == 'test']
    def test_where(pred):
        return [n for n in tests if pred(n.ast.test)]
    # sequence counter variable: compared with <rec>.sequence_counter
    def mentions_attr(t, a):
        return any(isinstance(x, ast.Attribute) and x.attr == a for x in ast.walk(t))
    def is_cmp(t, ops):
        return isinstance(t, ast.Compare) and len(t.ops) == 1 and isinstance(t.ops[0], ops)
    T_seq = test_where(lambda t: is_cmp(t, (ast.NotEq, ast.Eq)) and mentions_attr(t, 'sequence_counter') and not any(isinstance(x, ast.BoolOp) for x in ast.walk(t)))
    T_dup = test_where(lambda t: is_cmp(t, (ast.In, ast.NotIn)) and mentions_attr(t, 'frames'))
    T_first = test_where(lambda t: isinstance(t, ast.BoolOp) and isinstance(t.op, ast.And) and mentions_attr(t, 'sequence_counter') and any(
        is_cmp(v, (ast.Eq,)) and ast.unparse(v.left) == fc_name and isinstance(v.comparators[0], ast.Constant) and v.comparators[0].value == 0 for v in t.values))
    T_pre = test_where(lambda t: isinstance(t, ast.BoolOp) and isinstance(t.op, ast.And) and mentions_attr(t, 'payload_length') and any(
        is_cmp(v, (ast.NotEq,)) and ast.unparse(v.left) == fc_name for v in t.values))
    T_done = test_where(lambda t: is_cmp(t, (ast.GtE, ast.Gt, ast.LtE, ast.Lt, ast.Eq)) and mentions_attr(t, 'bytes_stored') and mentions_attr(t, 'payload_length'))
    def succ(n, label):
        r = [v for v, l in g.succ[n.id] if l == label]
        return r[0] if r else None
    # ---- RA-SEQ / RA-DUP
    if len(T_first) != 1:
        chk.unknown('RA-SEQ', '_decode_fast_message', f"restart test (frame counter == 0 and new sequence counter) not recognised ({len(T_first)})", DEC, fn.lineno)
        return
    TF = T_first[0]
    nonrestart = succ(TF, 'false')
    for name, T, eq_label_for in (('RA-SEQ', T_seq, lambda t: 'false' if isinstance(t.ops[0], ast.NotEq) else 'true'),
                                  ('RA-DUP', T_dup, lambda t: 'false' if isinstance(t.ops[0], ast.In) else 'true')):
        ok = False
        for t in T:
            lab = eq_label_for(t.ast.test)
            if nonrestart is not None and S.id not in reach_without_edge(g, nonrestart, (t.id, lab)):
                ok = True
        what = {'RA-SEQ': 'a frame whose sequence counter differs from the message in progress is rejected', 'RA-DUP': 'a frame counter already stored is rejected'}[name]
        chk.check(ok, name, 'guard-before-store', file=DEC, line=S.line, func='_decode_fast_message',
                  expected=f"every non-restart path to the frame store passes the guard: {what}", found='dominated' if ok else ('guard missing' if not T else 'a path to the store avoids the guard'),
                  detail='' if ok else {'RA-SEQ': 'frames of two messages with different sequence counters would be mixed', 'RA-DUP': 'a duplicated frame would be counted twice and complete the message early'}[name])
    # ---- RA-RESET
    restart = succ(TF, 'true')
    for a in rec_attrs:
        ws = [w for w in rec_writes if _writes_attr(w.ast, a)]
        ok = any(S.id not in g.reach(restart, avoid=[w.id], include_src=True) or restart == w.id for w in ws)
        chk.check(ok, 'RA-RESET', f"restart-resets::{a}", file=DEC, line=TF.line, func='_decode_fast_message',
                  expected=f"a first frame with a new sequence counter re-initialises record.{a} before storing", found='reset' if ok else 'not reset on the restart path',
                  detail='' if ok else 'bytes / counters of the abandoned message leak into the new one')
    # ---- RA-PRE
    if len(T_pre) != 1:
        chk.violation('RA-PRE', 'non-first-frame-without-record', file=DEC, line=fn.lineno, func='_decode_fast_message',
                      expected='`frame counter != 0 and nothing in progress` -> return before any state write', found='test not found')
    else:
        TP = T_pre[0]
        tgt = succ(TP, 'true')
        r = g.reach(tgt, include_src=True)
        leads_to_return = g.exit.id in r and not any(w.id in r for w in rec_writes) and S.id not in r
        dominated = all(w.id not in reach_without_edge(g, g.entry.id, (TP.id, 'false')) for w in rec_writes + [S])
        chk.check(leads_to_return and dominated, 'RA-PRE', 'non-first-frame-without-record', file=DEC, line=TP.line, func='_decode_fast_message',
                  expected='a later frame with no message in progress returns before any write to the record; all record writes lie behind this test',
                  found={'returns_without_write': leads_to_return, 'writes_behind_test': dominated})
    # ---- RA-DONE
    okd = False
    dels = [n for n in g.nodes if n.kind == 'stmt' and isinstance(n.ast, ast.Delete) and 'self.data[' in ast.unparse(n.ast)]
    pops = [n for n in g.nodes if n.kind == 'stmt' and 'self.data.pop(' in ast.unparse(n.ast)]
    dels = dels + pops
    for t in T_done:
        c = t.ast.test
        left_is_stored = mentions_attr(c.left, 'bytes_stored')
        op = type(c.ops[0])
        complete_label = None
        if left_is_stored and op is ast.GtE: complete_label = 'true'
        if left_is_stored and op is ast.Lt: complete_label = 'false'
        if not left_is_stored and op is ast.LtE: complete_label = 'true'
        if not left_is_stored and op is ast.Gt: complete_label = 'false'
        if complete_label is None:
            chk.violation('RA-DONE', 'completion-test', file=DEC, line=t.line, func='_decode_fast_message', expected='bytes_stored >= payload_length',
                          found=ast.unparse(c), detail='with `>` or `==` a message whose last frame carries padding (stored > announced) or exact length is never / not always delivered')
            continue
        tgt = succ(t, complete_label)
        r = g.reach(tgt, include_src=True)
        deleted = bool(dels) and g.exit.id not in g.reach(tgt, avoid=[d.id for d in dels], include_src=True, labels_excluded=('exc',))
        chk.check(deleted, 'RA-DONE', 'record-deleted-on-delivery', file=DEC, line=t.line, func='_decode_fast_message',
                  expected='every normal path from completion to the return deletes the record', found='deleted' if deleted else 'record survives delivery',
                  detail='' if deleted else 'stray duplicates of the delivered message would re-complete it')
        incomplete = succ(t, 'true' if complete_label == 'false' else 'false')
        r2 = g.reach(incomplete, include_src=True)
        calls_dec = any('_call_decode_function' in ast.unparse(g.nodes[x].ast) for x in r2 if g.nodes[x].ast is not None and g.nodes[x].kind == 'stmt')
        chk.check(not calls_dec, 'RA-DONE', 'nothing-returned-while-incomplete', file=DEC, line=t.line, func='_decode_fast_message',
                  expected='no decode while bytes are missing', found='decode reachable on the incomplete branch' if calls_dec else 'ok')
        okd = True
    if not T_done:
        chk.violation('RA-DONE', 'completion-test', file=DEC, line=fn.lineno, func='_decode_fast_message', expected='bytes_stored >= payload_length', found='not found')
    # ---- RA-ORDER / RA-TRUNC on the payload term
    calls = []
    for e in ex.events:
        for t in e[2:-1]:
            if isinstance(t, tuple):
                for s_ in sym.walk(t):
                    if s_[0] == 'call' and s_[1][0] == 'attr' and s_[1][2] == '_call_decode_function' and s_ not in calls:
                        calls.append(s_)
    chk.check(len(calls) == 1, 'RA-ORDER', 'one-delivery', file=DEC, line=fn.lineno, func='_decode_fast_message', expected='one call of _call_decode_function', found=len(calls), nontrivial=False)
    for c in calls:
        d = c[2][5] if len(c[2]) > 5 else None
        info = payload_shape(d) if d is not None else None
        chk.check(bool(info and info['sorted']), 'RA-ORDER', 'frames-concatenated-in-counter-order', file=DEC, line=fn.lineno, func='_decode_fast_message',
                  expected='concatenation iterates sorted(frames)', found=show(d)[:160] if d else None,
                  detail='' if info and info['sorted'] else 'iteration over the frame map in arrival order: reordered frames would produce a scrambled payload')
        chk.check(bool(info and info['truncated_by'] == 'payload_length'), 'RA-TRUNC', 'payload-bounded-by-announced-length', file=DEC, line=fn.lineno, func='_decode_fast_message',
                  expected='the payload handed to the decoder is cut to the announced length (a slice bound that depends on payload_length)', found=show(d)[:200] if d else None,
                  detail='' if info and info['truncated_by'] else 'padding bytes beyond the announced length become part of the payload: the same message padded with FF or 00 decodes differently')
    # ---- RA-COUNT: what is counted is what was stored
    cnt = [e for e in ex.events if e[0] == 'store' and e[2][0] == 'attr' and e[2][2] == 'bytes_stored' and not sym.is_const(e[3])]
    fst = [e for e in ex.events if e[0] == 'store' and e[2][0] == 'sub' and e[2][1][0] == 'attr' and e[2][1][2] == 'frames']
    okc = False
    found = [show(e[3])[:120] for e in cnt]
    if len(cnt) == 1 and len(fst) == 1:
        v = cnt[0][3]
        stored = fst[0][3]
        want_len = ('call', ('name', 'len'), (stored,), ())
        if v[0] == 'binop' and v[1] == '+':
            for a, b in ((v[2], v[3]), (v[3], v[2])):
                if a[0] == 'attr' and a[2] == 'bytes_stored' and b == want_len:
                    okc = True
    chk.check(okc, 'RA-COUNT', 'bytes-counted-are-bytes-stored', file=DEC, line=cnt[0][-1] if cnt else fn.lineno, func='_decode_fast_message',
              expected='bytes_stored += len(<exactly the bytes stored for this frame>)', found=found,
              detail='' if okc else 'counting header bytes makes completion fire early: payloads of particular lengths are delivered short and their last frame is dropped')
    # ---- RA-SAFE
    pdata = 'can_data' if 'can_data' in params else None
    risky = [n for n in g.nodes if n.kind in ('stmt', 'test') and any(isinstance(x, ast.Subscript) and isinstance(x.value, ast.Name) and x.value.id == pdata and isinstance(x.ctx, ast.Load)
                                                                     and not isinstance(x.slice, ast.Slice) for e in _own_exprs(n.ast) for x in walk_no_nested(e))]
    chk.check(len(risky) >= 2, 'RA-SAFE', 'index-sites', file=DEC, line=fn.lineno, expected='>= 2 indexed reads of the frame', found=len(risky), nontrivial=False)
    for x in risky:
        before = [w for w in rec_writes + [S] if x.id in g.reach(w.id)]
        chk.check(not before, 'RA-SAFE', f"raise-before-write::{skey(x.ast)}", file=DEC, line=x.line, func='_decode_fast_message',
                  expected='an index that can fail on a truncated frame is evaluated before any write to the record on its path', found=[skey(w.ast) for w in before] or 'ok',
                  detail='' if not before else 'a 0-2 byte frame would raise after the record was modified, leaving it half-updated')
    return g

def _alternates(k):
    """fstr parts alternate value / separator"""
    parts = k[1]
    vals = [p for p in parts if p[0] != 'const']
    if len(vals) < 3:
        return False
    for a, b in zip(parts, parts[1:]):
        if a[0] != 'const' and b[0] != 'const':
            return False
    return True

def _writes_attr(stmt, a):
    tg = []
    if isinstance(stmt, ast.Assign): tg = stmt.targets
    elif isinstance(stmt, ast.AugAssign): tg = [stmt.target]
    for t in tg:
        if isinstance(t, ast.Attribute) and t.attr == a:
            return True
    if isinstance(stmt, ast.Expr) and isinstance(stmt.value, ast.Call) and isinstance(stmt.value.func, ast.Attribute) and stmt.value.func.attr == 'clear' \
            and isinstance(stmt.value.func.value, ast.Attribute) and stmt.value.func.value.attr == a:
        return True
    return False

def payload_shape(d):
    """structure of the reassembled payload term: {'sorted': bool, 'truncated_by': attr or None, 'reversed': bool}"""
    rev = ('slice', NONE, NONE, C(-1))
    info = {'sorted': False, 'truncated_by': None, 'reversed': False}
    t = d
    # peel reversal / truncation layers
    for _ in range(4):
        if t[0] == 'sub' and t[2] == rev:
            info['reversed'] = not info['reversed']; t = t[1]; continue
        if t[0] == 'sub' and t[2][0] == 'slice':
            lo, hi, st = t[2][1], t[2][2], t[2][3]
            for b in (lo, hi):
                for s_ in sym.walk(b):
                    if s_[0] == 'attr' and s_[2] == 'payload_length':
                        info['truncated_by'] = 'payload_length'
            t = t[1]; continue
        break
    if t[0] == 'call' and t[1] in (('name', 'bytes'), ('name', 'bytearray')) and len(t[2]) == 1:
        comp = t[2][0]
        if comp[0] in ('listcomp', 'generatorexp'):
            gens = comp[2]
            for (v, it, conds) in gens:
                if it[0] == 'call' and it[1] == ('name', 'sorted') and it[2] and any(s_[0] == 'attr' and s_[2] == 'frames' for s_ in sym.walk(it[2][0])):
                    info['sorted'] = True
                if it[0] == 'call' and it[1] == ('name', 'range'):
                    info['sorted'] = True       # iterating counters 0..n-1 in order is also counter order
            # a truncation inside the comprehension (islice / [:n]) is not recognised: stays None
    if t[0] == 'call' and t[1][0] == 'attr' and t[1][2] == 'join':
        arg = t[2][0] if t[2] else None
        if arg is not None:
            for s_ in sym.walk(arg):
                if s_[0] == 'call' and s_[1] == ('name', 'sorted'):
                    info['sorted'] = True
    return info

# ---------------------------------------------------------------------------
# C11
# ---------------------------------------------------------------------------
def map_key_scan(chk, program):
    """syntax-level who-writes/reads scan of the source map (independent of sym.py, so it also sees loops): every subscript,
    get/pop/setdefault and del uses the source-address parameter of the enclosing function as key; nothing iterates over the map"""
    m = program.mod('decoder')
    role = {'_decode': 3, '_call_decode_function': 3, '_decode_fast_message': 3}       # index of the source parameter incl. self
    n = 0
    for q, fn in m.defs.items():
        if not q.startswith(CLS + '.'):
            continue
        short = q.split('.', 1)[1]
        params = [a.arg for a in fn.args.args]
        srcp = params[role[short]] if short in role and len(params) > role[short] else None
        for node in ast.walk(fn):
            if not (isinstance(node, ast.Attribute) and node.attr == 'source_to_iso_name' and isinstance(node.value, ast.Name) and node.value.id == 'self'):
                continue
            par = getattr(node, '_parent', None)
            if short == '__init__' and isinstance(node.ctx, ast.Store):
                continue
            n += 1
            key = None; how = None
            if isinstance(par, ast.Subscript) and par.value is node:
                key = par.slice; how = {'Load': 'read', 'Store': 'write', 'Del': 'delete'}[type(par.ctx).__name__]
            elif isinstance(par, ast.Compare) and len(par.ops) == 1 and isinstance(par.ops[0], (ast.In, ast.NotIn)) and par.comparators[0] is node:
                key = par.left; how = 'membership'
            elif isinstance(par, ast.Attribute) and par.value is node and isinstance(getattr(par, '_parent', None), ast.Call) and par._parent.func is par:
                how = par.attr
                if par.attr in ('get', 'pop', 'setdefault') and par._parent.args:
                    key = par._parent.args[0]
            inst = f"{short}::{how}::{ast.unparse(key) if key is not None else ast.unparse(par)[:40]}"
            if key is None:
                chk.violation('MAP-KEY', inst, file=DEC, line=node.lineno, func=short, expected='the source map is only indexed by a source address', found=ast.unparse(par)[:80],
                              detail='iterating / bulk-editing the map lets a claim from one address change another address\'s identity')
                continue
            ok = isinstance(key, ast.Name) and key.id == srcp
            chk.check(ok, 'MAP-KEY', inst, file=DEC, line=node.lineno, func=short, expected=f"key = the source-address parameter ({srcp})", found=ast.unparse(key),
                      detail='' if ok else 'an entry of another address is read / written / deleted')
    chk.floor('source_map_sites', n, 3)

def map_history(chk, program):
    """MAP-* decided on a history run by the interpreted decode path (rules_filter.DecodePath), two sources, mapping off and on:
      1 claim (NAME 12345) from source 7            -> returned, a new identity made from THIS message and its payload integer, stored under 7, attached
      2 ordinary message from 7                     -> the identity stored under 7 attached (the same object)
      3 ordinary message from 9 (never claimed)     -> nothing attached; the entry of 7 untouched
      4 claim from 9 with NAME 777                  -> stored under 9 (not under 7), attached
      5 the same claim from 7 again                 -> the stored identity kept and attached (no new object)
      6 claim from 7 with NAME 999                  -> replaced by a new identity, attached
      7 ordinary message from 7                     -> the replacement attached
    and, with the claim PGN excluded by configuration, 1 / 6 still update the map although nothing is returned.
    -> True when the history was interpretable and every step was reported (then the spelling-bound readings only confirm), False otherwise"""
    from . import absint as A
    consts = F.module_consts(program)
    sf, cf = F.facts_or_none(program)
    db = program.db
    ordinary = [d for d in db.defs if not d.group.complex and d.pgn != consts['ISO_CLAIM_PGN'] and len(d.group.defs) == 1]
    P, ID = ordinary[0].pgn, ordinary[0].id
    CP, CID = consts['ISO_CLAIM_PGN'], consts['ISO_CLAIM_PGN_ID']
    fn2 = program.fn('decoder', f"{CLS}._call_decode_function")
    fast_ok = []
    map_history.fast_decided = False
    try:
        for excl, tag in (([], ''), ([CP], '/claim-filtered')):
            attrs = F.runtime_attrs(program, sf, cf, consts, excl, [])
            dp = F.DecodePath(program, attrs, consts)
            rep = []
            def step(name, pgn, mid, src, nm, want_ret, check, fast=False):
                r = dp.feed(pgn, mid, src=src, name_int=nm, fast=fast)
                problems = check(r)
                ad = r.get('add_data')
                if r['status'] == 'returned' and ad is not None:
                    # the addressing handed to add_data is that of this message: source, destination 255, priority 3 (the stand-ins of DecodePath.feed)
                    for key, want_v in (('src', src), ('dest', 255), ('priority', 3)):
                        v_ = ad.get(key)
                        if key in ad and not (isinstance(v_, A.AInt) and v_.v == want_v):
                            problems.append(f"add_data receives {key}={v_!r} for a message with {key} {want_v}")
                if not excl and (r['status'] == 'returned') != want_ret:
                    problems.append(f"message {'withheld' if want_ret else 'returned'}")
                if excl and pgn == CP and r['status'] == 'returned':
                    problems.append('an excluded claim is returned')
                rep.append((name, problems, r))
                return r
            m = lambda: dp.dec.attrs['source_to_iso_name'].items
            def is_new_from(r, nm):
                e = r['map_entry']
                ok = isinstance(e, A.AObj) and e.attrs.get('new') and isinstance(e.attrs.get('name'), A.AInt) and e.attrs['name'].v == nm and e.attrs.get('made_from') is r['msg']
                return ok
            r1 = step('claim-from-7', CP, CID, 7, 12345, True, lambda r: ([] if is_new_from(r, 12345) else ['the map entry of source 7 is not a new identity made from this claim and its payload integer']) +
                      ([] if excl or r['attached_raw'] is r['map_entry'] else ['the identity attached is not the one stored']))
            e7 = m().get(7)
            step('ordinary-from-7', P, ID, 7, 5, True, lambda r: [] if r['attached_raw'] is e7 and m().get(7) is e7 else ['the identity attached is not the entry stored for source 7'])
            step('ordinary-from-9-unclaimed', P, ID, 9, 5, True, lambda r: ([] if r['attached_raw'] in (None, '<none>') else ['an identity is attached to a message of a source that never claimed']) +
                 ([] if m().get(7) is e7 and 9 not in m() else ['the map changed on an ordinary message']))
            step('claim-from-9', CP, CID, 9, 777, True, lambda r: ([] if is_new_from(r, 777) and m().get(7) is e7 else ['the claim of source 9 is not filed under 9 / disturbs the entry of 7']) +
                 ([] if excl or r['attached_raw'] is m().get(9) else ['the identity attached is not the one stored for 9']))
            step('claim-from-11-with-the-NAME-of-7', CP, CID, 11, 12345, True, lambda r: ([] if is_new_from(r, 12345) and r['map_entry'] is m().get(11) and m().get(7) is e7 and 9 in m() else
                                                                                        ['a claim from another address with the same NAME changes the entries of other addresses']))
            step('same-claim-from-7', CP, CID, 7, 12345, True, lambda r: ([] if m().get(7) is e7 else ['an unchanged NAME replaces the stored identity']) +
                 ([] if excl or r['attached_raw'] is e7 else ['the identity attached is not the stored one']))
            step('NAME-differing-outside-the-serial-number-from-7', CP, CID, 7, 12345 | (1 << 40), True,
                 lambda r: ([] if is_new_from(r, 12345 | (1 << 40)) and m().get(7) is not e7 else ['a claim whose NAME differs (same serial number and manufacturer) does not replace the stored identity']) +
                 ([] if excl or r['attached_raw'] is m().get(7) else ['the identity attached is not the replacement']))
            r6 = step('other-NAME-from-7', CP, CID, 7, 999, True, lambda r: ([] if is_new_from(r, 999) and m().get(7) is not e7 else ['a claim with another NAME does not replace the stored identity']) +
                      ([] if excl or r['attached_raw'] is m().get(7) else ['the identity attached is not the replacement']))
            e7b = m().get(7)
            step('ordinary-from-7-after-replacement', P, ID, 7, 5, True, lambda r: [] if r['attached_raw'] is e7b else ['the identity attached is not the latest claim of source 7'])
            # the same through the fast-packet path: a message complete in its first frame, from 7 (claimed) and from 13 (never claimed)
            nrep = len(rep)
            try:
                step('fast-from-7', P, ID, 7, 5, True, lambda r: [] if r['attached_raw'] is e7b and m().get(7) is e7b else ['the identity attached to a reassembled message is not the entry stored for its source'], fast=True)
                step('fast-from-13-unclaimed', P, ID, 13, 5, True, lambda r: ([] if r['attached_raw'] in (None, '<none>') else ['an identity is attached to a reassembled message of a source that never claimed']) +
                     ([] if 13 not in m() and m().get(7) is e7b else ['the map changed on an ordinary message']), fast=True)
                # a two-frame message from 7 with a claim of 7 (another NAME) between its frames: the completed message carries the latest claim
                step('fast-first-frame-from-7', P, ID, 7, 5, False, lambda r: [] if m().get(7) is e7b else ['the map changed on a frame of an ordinary message'], fast=(0x20, 10, 1, 2, 3, 4, 5, 6))
                step('claim-from-7-between-the-frames', CP, CID, 7, 4242, True, lambda r: [] if is_new_from(r, 4242) and m().get(7) is not e7b else ['a claim with another NAME does not replace the stored identity'])
                e7c = m().get(7)
                step('fast-last-frame-from-7', P, ID, 7, 5, True, lambda r: [] if r['attached_raw'] is e7c else ['the identity attached to the reassembled message is not the latest claim of its source (it is the one known when an earlier frame arrived)'],
                     fast=(0x21, 7, 8, 9, 10, 0xff, 0xff, 0xff))
                fast_ok.append(True)
            except (A.Unknown, A.RaiseSignal, teval.EvalUnknown, KeyError, AttributeError, TypeError, AnalysisError) as u:
                del rep[nrep:]
                chk.unit('map_history_fast_path_not_interpretable', f"{type(u).__name__}: {u}"[:200])
                fast_ok.append(False)
            for name, problems, r in rep:
                chk.check(not problems, 'MAP-REPLACE' if 'claim' in name or 'NAME' in name else 'MAP-ATTACH', f"history::{name}{tag}", file=DEC, line=fn2.lineno, func='_decode',
                          expected='see the history in rules_decoder.map_history', found=problems or 'ok', nontrivial=True)
    except (A.Unknown, A.RaiseSignal, teval.EvalUnknown, KeyError, AttributeError, TypeError, AnalysisError) as u:
        chk.unit('map_history_not_interpretable', f"{type(u).__name__}: {u}"[:200])
        return False
    map_history.fast_decided = bool(fast_ok) and all(fast_ok)
    return True

def map_rules(chk, program):
    decided = map_history(chk, program)
    fast_decided = decided and map_history.fast_decided
    # the history decides MAP-REPLACE / MAP-ATTACH / MAP-KEY on the interpreted code (the fast-packet hand-over included when that path was
    # interpretable): what follows reads particular spellings and only confirms.  Where the history was not interpretable, a spelling the
    # readings do not recognise is no verdict either: it is reported as undecided (exit 2), never as a violation.
    chk = _Demote(chk, confirm={'MAP-REPLACE', 'MAP-ATTACH', 'MAP-KEY'}, skip_floors={'source_map_accesses'} if decided else (),
                  undecided=(lambda inst: (not decided) or ('_decode_fast_message' in inst and not fast_decided)))
    return _map_rules(chk, program)

class _Demote:
    """rules in `confirm` may only confirm (what they do not recognise is no alarm: a semantic decision was taken elsewhere); all other rules pass through"""
    def __init__(self, chk, confirm, skip_floors=(), but=None, undecided=None):
        self.chk = chk; self._confirm = confirm; self.skip_floors = set(skip_floors); self.but = but or (lambda inst: False)
        self.undecided = undecided or (lambda inst: False)
        self.history_decided = True
        self.confirm = self
        self.obs = chk.obs
        self.errors = chk.errors
    def check(self, cond, rule, instance, **k):
        self._inst = instance
        if rule in self.confirm:
            if cond:
                self.chk.ok(rule, 'structural::' + instance, **{a: b for a, b in k.items() if a in ('file', 'line', 'func', 'expected', 'found', 'detail', 'nontrivial')})
            elif self.undecided(instance):
                self.chk.unknown(rule, instance, f"no interpreted history covers this and the reading of the spelling does not recognise it (expected {str(k.get('expected'))[:100]}, found {str(k.get('found'))[:100]})",
                                 k.get('file', DEC), k.get('line', 0))
            return cond
        return self.chk.check(cond, rule, instance, **k)
    def anchor(self, cond, rule, instance, **k):
        self._inst = instance
        if rule in self.confirm:
            return self.check(cond, rule, instance, **k)
        return self.chk.anchor(cond, rule, instance, **k)
    def ok(self, rule, instance, **k):
        self._inst = instance
        self.chk.ok(rule, ('structural::' + instance) if rule in self.confirm else instance, **k)
    def violation(self, rule, instance, **k):
        self._inst = instance
        if rule not in self.confirm:
            self.chk.violation(rule, instance, **k)
        elif self.undecided(instance):
            self.chk.unknown(rule, instance, f"no interpreted history covers this and the reading of the spelling does not recognise it (found {str(k.get('found'))[:100]})", k.get('file', DEC), k.get('line', 0))
    def unknown(self, rule, instance, *a, **k):
        self._inst = instance
        if rule not in self.confirm or self.undecided(instance):
            self.chk.unknown(rule, instance, *a, **k)
    def unit(self, *a, **k): return self.chk.unit(*a, **k)
    def __contains__(self, rule):
        return rule in self._confirm and not self.but(self._inst)
    def floor(self, name, *a, **k):
        if name not in self.skip_floors:
            return self.chk.floor(name, *a, **k)
    def rule(self, *a, **k): return self.chk.rule(*a, **k)

def _map_rules(chk, program):
    consts = F.module_consts(program)
    map_key_scan(chk, program)
    stages = {q: F.stage_events(program, q) for q in ('_decode', '_call_decode_function')}
    ffn, fex = F.stage_events(program, '_decode_fast_message')
    MAP = ('attr', ('param', 'self'), 'source_to_iso_name')
    # ---- MAP-KEY
    role = {'_decode': 2, '_call_decode_function': 2, '_decode_fast_message': 2}      # 0-based index after self of the source parameter
    nacc = 0
    for q, (fn, ex) in list(stages.items()) + [('_decode_fast_message', (ffn, fex))]:
        src_param = ('param', ex.params[1 + role[q]])
        seen = set()
        for e in ex.events:
            terms = list(e[1]) + [t for t in e[2:-1] if isinstance(t, tuple)]
            for t in terms:
                for s_ in sym.walk(t):
                    key = None; kind = None
                    if s_[0] == 'sub' and s_[1] == MAP:
                        key = s_[2]; kind = 'subscript'
                    if s_[0] == 'call' and s_[1] == ('attr', MAP, 'get') and s_[2]:
                        key = s_[2][0]; kind = 'get'
                    if key is not None and (q, kind, key) not in seen:
                        seen.add((q, kind, key))
                        nacc += 1
                        chk.check(key == src_param, 'MAP-KEY', f"{q}::{kind}::{show(key)}", file=DEC, line=e[-1], func=q,
                                  expected=f"source map keyed by the source-address parameter ({src_param[1]})", found=show(key),
                                  detail='' if key == src_param else 'a claim would be filed under / looked up by the wrong address')
    chk.floor('source_map_accesses', nacc, 3)
    # positional hand-over of the source role down the call chain
    fn, ex = stages['_decode']
    for e in ex.events:
        if e[0] == 'return' and e[2][0] == 'call' and e[2][1][0] == 'attr' and e[2][1][2] in ('_call_decode_function', '_decode_fast_message'):
            a = e[2][2]
            want = [('param', ex.params[i]) for i in (1, 2, 3, 4)]      # pgn, priority, source, destination
            chk.check(list(a[:4]) == want, 'MAP-KEY', f"_decode->{e[2][1][2]}::roles", file=DEC, line=e[-1], func='_decode',
                      expected='(pgn, priority, source, destination) handed on in the same positions', found=[show(x) for x in a[:4]])
    for e in fex.events:
        for t in e[2:-1]:
            if isinstance(t, tuple):
                for s_ in sym.walk(t):
                    if s_[0] == 'call' and s_[1][0] == 'attr' and s_[1][2] == '_call_decode_function':
                        a = s_[2]
                        want = [('param', fex.params[i]) for i in (1, 2, 3, 4)]
                        chk.check(list(a[:4]) == want, 'MAP-KEY', '_decode_fast_message->_call_decode_function::roles', file=DEC, line=e[-1], func='_decode_fast_message',
                                  expected='(pgn, priority, src, dest) handed on in the same positions', found=[show(x) for x in a[:4]])
                        chk.check(len(a) > 6 and a[6] == ('param', fex.params[7]), 'MAP-ATTACH', '_decode_fast_message->_call_decode_function::identity', file=DEC, line=e[-1],
                                  expected='the identity looked up by _decode is handed on unchanged', found=show(a[6]) if len(a) > 6 else None)
    # ---- MAP-ATTACH: what _decode hands on as identity is the map lookup for that source
    src = ('param', ex.params[3])
    lookup = ('call', ('attr', MAP, 'get'), (src, NONE), ())
    lookup2 = ('call', ('attr', MAP, 'get'), (src,), ())
    direct_idents = {e[2][2][6] for e in ex.events if e[0] == 'return' and e[2][0] == 'call' and e[2][1][0] == 'attr' and e[2][1][2] == '_call_decode_function' and len(e[2][2]) > 6}
    for e in ex.events:
        if e[0] == 'return' and e[2][0] == 'call' and e[2][1][0] == 'attr' and e[2][1][2] in ('_call_decode_function', '_decode_fast_message'):
            ident = e[2][2][6] if len(e[2][2]) > 6 else None
            leaves = _ite_leaves(ident) if ident is not None else []
            ok = ident is not None and set(leaves) <= {lookup, lookup2, NONE} and (lookup in leaves or lookup2 in leaves)
            if not ok and e[2][1][2] == '_decode_fast_message' and getattr(chk, 'history_decided', False) and ident is not None and direct_idents == {ident}:
                ok = True      # the very expression handed to the single-frame path, which the interpreted history decided
            chk.check(ok, 'MAP-ATTACH', f"_decode->{e[2][1][2]}::identity", file=DEC, line=e[-1], func='_decode',
                      expected='identity argument = source_to_iso_name.get(<source>) (None only for the claim PGN, which looks itself up later)', found=show(ident) if ident else None)
    # ---- MAP-REPLACE + attach on the claim path
    fn2, ex2 = stages['_call_decode_function']
    src2 = ('param', ex2.params[3])
    from .gen import canon as _canon
    stores = [e for e in ex2.events if e[0] == 'store' and e[2] == ('sub', MAP, src2)]
    chk.check(len(stores) == 1, 'MAP-REPLACE', 'one-store', file=DEC, line=fn2.lineno, func='_call_decode_function', expected='exactly one store into the source map', found=len(stores))
    adds = []
    for e in ex2.events:
        if e[0] == 'expr' and e[2][0] == 'call' and e[2][1][0] == 'attr' and e[2][1][2] == 'add_data':
            adds.append(e)
    chk.check(len(adds) == 1, 'MAP-ATTACH', 'one-add_data', file=DEC, line=fn2.lineno, func='_call_decode_function', expected=1, found=len(adds))
    if stores and adds:
        st = stores[0]
        new = st[3]
        g = sym.conj(st[1])
        claim_conds = [x for x in g if x[0] == 'cmp' and x[1] == '==' and (x[3] in (('name', 'ISO_CLAIM_PGN'), ('const', consts['ISO_CLAIM_PGN'])) or x[2] in (('name', 'ISO_CLAIM_PGN'), ('const', consts['ISO_CLAIM_PGN'])))]
        msgterm = adds[0][2][1][1]
        data_int = None
        if new[0] == 'call' and new[1] == ('name', 'IsoName') and len(new[2]) == 2:
            data_int = new[2][1]
        ok_new = data_int is not None and new[2][0] == msgterm and msgterm[0] == 'call' and msgterm[2] == (data_int,)
        chk.check(ok_new and bool(claim_conds), 'MAP-REPLACE', 'new-identity-from-this-claim', file=DEC, line=st[-1], func='_call_decode_function',
                  expected='under PGN == claim: map[src] = IsoName(<this decoded message>, <its own payload integer>)', found=show(new)[:160])
        old = ('call', ('attr', MAP, 'get'), (src2,), ())
        reuse = ('bool', 'and', (('cmp', 'is not', old, NONE), ('cmp', '==', ('attr', old, 'name'), data_int)))
        reuse_ok = sym.mk_not(reuse) in [_canon(x) for x in g]
        # the spelling of the reuse test is free (`old is not None and old.name == n`, its De Morgan dual, ...): the table below (no entry / same NAME /
        # other NAME) decides; the recognised spelling is recorded as confirmed
        if reuse_ok:
            chk.ok('MAP-REPLACE', 'reuse-only-when-NAME-unchanged', file=DEC, line=st[-1], func='_call_decode_function',
                   expected='the stored identity is kept only if it exists and its NAME equals the whole payload integer; otherwise replaced', found=[show(x)[:120] for x in g[-1:]])
        # positional and keyword arguments of add_data(...) by the method's own parameter list
        adp_ = [a_.arg for a_ in program.fn('message', 'NMEA2000Message.add_data').args.args][1:]
        pos_ = list(adds[0][2][2]) + [None] * len(adp_)
        kw_ = dict(adds[0][2][3])
        bound_ = [kw_.get(n_, pos_[i_]) for i_, n_ in enumerate(adp_)]
        ident = bound_[4] if len(bound_) > 4 else None
        leaves = [_canon(x) for x in _ite_leaves(ident)] if ident is not None else []
        okat = ident is not None and set(leaves) == {old, _canon(new), ('param', ex2.params[7])}
        chk.check(okat, 'MAP-ATTACH', 'add_data::identity', file=DEC, line=adds[0][-1], func='_call_decode_function',
                  expected='identity attached = the map entry for this source (claim: reused or new entry; otherwise the looked-up one)', found=show(ident)[:200] if ident else None)
        a = bound_
        want = [('param', ex2.params[i]) for i in (3, 4, 2, 5)]     # src, dest, priority, timestamp
        chk.check(list(a[:4]) == want, 'MAP-ATTACH', 'add_data::addressing', file=DEC, line=adds[0][-1], func='_call_decode_function',
                  expected='add_data(src, dest, priority, timestamp, ...)', found=[show(x) for x in a[:4]])
    # table: which identity is attached to the claim message itself, per state of the map
    if adds:
        sf, cf = F.facts_or_none(program)
        adp_ = [a_.arg for a_ in program.fn('message', 'NMEA2000Message.add_data').args.args][1:]
        pos_ = list(adds[0][2][2]) + [None] * len(adp_)
        kw_ = dict(adds[0][2][3])
        ident_term = kw_.get(adp_[4], pos_[4]) if len(adp_) > 4 else None
        for (excl, old_name, tag) in [(e_, o_, t_ + ('' if not e_ else '/claim-filtered')) for e_ in ([], [consts['ISO_CLAIM_PGN']]) for o_, t_ in ((None, 'no-entry'), (12345, 'same-NAME'), (999, 'other-NAME'))]:
            attrs = F.runtime_attrs(program, sf, cf, consts, excl, [])
            iso = None if old_name is None else F.Stub(name=old_name, manufacturer_code=None)
            model, msg = F.make_model(attrs, consts, consts['ISO_CLAIM_PGN'], consts['ISO_CLAIM_PGN_ID'], iso=iso)
            try:
                res, det_ = F.outcome_any(program, stages, model, dict(attrs=attrs, consts=consts, pgn=consts['ISO_CLAIM_PGN'], mid=consts['ISO_CLAIM_PGN_ID'], iso=iso))
                if det_ is not None:
                    got = det_['attached']
                else:
                    try:
                        if ident_term is not None and any(s_ == ('attr', ('param', 'self'), 'source_to_iso_name') for s_ in sym.walk(ident_term)):
                            # the identity is read back from the map after the map may have been written: a term cannot see that write
                            raise teval.EvalUnknown('identity read back from the source map')
                        got = teval.ev(ident_term, model) if ident_term is not None else None
                    except teval.EvalUnknown as u0:
                        from . import absint as A_
                        try:
                            det_ = F.outcome_interp(program, attrs, consts, consts['ISO_CLAIM_PGN'], consts['ISO_CLAIM_PGN_ID'], iso=iso)
                        except (A_.Unknown, A_.RaiseSignal, KeyError, AttributeError, TypeError) as u2:
                            raise teval.EvalUnknown(f"{u0} / decode path not interpretable: {u2}"[:300])
                        res = (det_['status'], det_['stage'], 0, det_['stored'])
                        got = det_['attached']
            except teval.EvalUnknown as u:
                chk.unknown('MAP-REPLACE', f"claim::{tag}", f"not evaluable: {u}", DEC, fn2.lineno)
                continue
            want_store = old_name != 12345
            is_new = isinstance(got, F.Stub) and got.attrs.get('new') is True
            if det_ is not None and res[0] == 'filtered':
                # interpreted run of a claim that the configuration withholds: nothing is attached to anything; only the map is observable
                chk.check(res[3] is want_store, 'MAP-REPLACE', f"claim::{tag}", file=DEC, line=fn2.lineno, func='_call_decode_function',
                          expected=('new identity stored under the source' if want_store else 'stored identity kept (same 64-bit NAME)'), found={'stored': res[3]})
                continue
            chk.check(res[3] is want_store and (is_new if want_store else got is iso), 'MAP-REPLACE', f"claim::{tag}", file=DEC, line=fn2.lineno, func='_call_decode_function',
                      expected=('new identity stored under the source and attached' if want_store else 'stored identity reused (same 64-bit NAME)'),
                      found={'stored': res[3], 'attached': 'new' if is_new else ('stored one' if got is iso and iso is not None else repr(got))},
                      detail='the stand-in claim carries NAME 12345; the map holds ' + ('nothing' if old_name is None else f"NAME {old_name}"))
    # add_data stores the identity
    ad = program.fn('message', 'NMEA2000Message.add_data')
    adp = [x.arg for x in ad.args.args]
    stores_id = [n for n in ast.walk(ad) if isinstance(n, ast.Assign) and any(isinstance(t, ast.Attribute) and t.attr == 'source_iso_name' for t in n.targets)]
    chk.check(len(stores_id) == 1 and isinstance(stores_id[0].value, ast.Name) and stores_id[0].value.id == 'source_iso_name' and 'source_iso_name' in adp, 'MAP-ATTACH', 'add_data::stores',
              file='nmea2000/message.py', line=ad.lineno, func='add_data', expected='self.source_iso_name = source_iso_name', found=[ast.unparse(s) for s in stores_id])
    for attr, par in (('source', 'src'), ('destination', 'dest'), ('priority', 'priority')):
        ss = [n for n in ast.walk(ad) if isinstance(n, ast.Assign) and any(isinstance(t, ast.Attribute) and t.attr == attr for t in n.targets)]
        chk.check(len(ss) == 1 and isinstance(ss[0].value, ast.Name) and ss[0].value.id == par, 'MAP-ATTACH', f"add_data::{attr}", file='nmea2000/message.py', line=ad.lineno,
                  func='add_data', expected=f"self.{attr} = {par}", found=[ast.unparse(s) for s in ss], nontrivial=False)
    return consts, stages

def _ite_leaves(t):
    if t[0] == 'ite':
        return _ite_leaves(t[2]) + _ite_leaves(t[3])
    return [t]

def mfr_rules(chk, program, consts, stages):
    sf, cf = F.facts_or_none(program)
    db = program.db
    ordinary = [d for d in db.defs if not d.group.complex and d.pgn != consts['ISO_CLAIM_PGN'] and len(d.group.defs) == 1]
    P, ID = ordinary[0].pgn, ordinary[0].id
    # MFR-NORM: constructor lower-cases both lists -- decided on the interpreted constructor
    from . import absint as A
    init = program.fn('decoder', f"{CLS}.__init__")
    try:
        at = F.interp_ctor(program, mfr_excl=['GarMin', 'AIRMAR'], mfr_incl=[])
        at2 = F.interp_ctor(program, mfr_excl=[], mfr_incl=['GarMin'])
        for attr, got, want in (('exclude_manufacturer_code', at.get('exclude_manufacturer_code'), ['airmar', 'garmin']), ('include_manufacturer_code', at2.get('include_manufacturer_code'), ['garmin'])):
            if got is None:
                chk.unknown('MFR-NORM', f"__init__::{attr}", f"the constructor leaves no attribute {attr}: where the manufacturer codes are kept was not followed", DEC, init.lineno)
                continue
            chk.check(sorted(got) == want, 'MFR-NORM', f"__init__::{attr}", file=DEC, line=init.lineno, func='__init__', expected=f"the given codes lower-cased: {want}", found=got)
    except (A.Unknown, A.RaiseSignal) as u:
        chk.unknown('MFR-NORM', '__init__', f"constructor not interpretable: {u}", DEC, init.lineno)
    n = 0
    mf = 'Garmin'
    cases = []
    for mode in ('none', 'exclude', 'include'):
        for entry in (None, 'garmin', 'airmar'):
            if (mode == 'none') != (entry is None):
                continue
            for known in ('claimed', 'never-claimed', 'claimed-no-mfr'):
                for netmap in (False, True):
                    for after in (False, True):
                        cases.append((mode, entry, known, netmap, after))
    # both lists configured: a manufacturer on the exclude list is withheld whether or not the include list names it
    for entry in ('garmin+garmin', 'garmin+airmar', 'airmar+garmin'):
        for known in ('claimed', 'claimed-no-mfr'):
            cases.append(('both', entry, known, False, False))
    for (mode, entry, known, netmap, after) in cases:
        attrs = F.runtime_attrs(program, sf, cf, consts, [], [])
        ex_m = {entry} if mode == 'exclude' else set()
        in_m = {entry} if mode == 'include' else set()
        if mode == 'both':
            ex_m, in_m = {entry.split('+')[0]}, {entry.split('+')[1]}
        iso = {'claimed': F.Stub(manufacturer_code=mf, name=1), 'never-claimed': None, 'claimed-no-mfr': F.Stub(manufacturer_code=None, name=1)}[known]
        for (pgn, mid, kind) in ((P, ID, 'ordinary'), (consts['ISO_CLAIM_PGN'], consts['ISO_CLAIM_PGN_ID'], 'claim')):
            model, msg = F.make_model(attrs, consts, pgn, mid, extra_self={'exclude_manufacturer_code': ex_m, 'include_manufacturer_code': in_m, 'build_network_map': netmap},
                                      iso=iso, now_after_window=after)
            try:
                res, _det = F.outcome_any(program, stages, model, dict(attrs=attrs, consts=consts, pgn=pgn, mid=mid, iso=iso, now_after_window=after,
                                                                       extra_self={'exclude_manufacturer_code': ex_m, 'include_manufacturer_code': in_m, 'build_network_map': netmap}))
            except teval.EvalUnknown as u:
                chk.unknown('MFR-GUARD', f"{mode}:{entry}:{known}", f"guard not evaluable: {u}", DEC, 0)
                return
            n += 1
            if kind == 'claim':
                want = True
            else:
                want = True
                if known == 'never-claimed' and netmap and not after:
                    want = False
                if known == 'claimed':
                    if mode == 'exclude' and entry == mf.lower():
                        want = False
                    if mode == 'include' and entry != mf.lower():
                        want = False
                    if mode == 'both' and (mf.lower() in ex_m or mf.lower() not in in_m):
                        want = False
            got = res[0] == 'returned'
            inst = f"{kind}::{mode}:{entry}::{known}::netmap={netmap}::after-window={after}"
            chk.check(got == want, 'MFR-GUARD', inst, file=DEC, line=res[2], func=res[1] or '',
                      expected='returned' if want else 'withheld', found=res[0], detail='manufacturer include/exclude on the claimed manufacturer (case-insensitive); unknown sources withheld during the discovery window when mapping is on')
            if not want and got is False:
                chk.check(res[1] == '_decode', 'MFR-GUARD', inst + '::before-reassembly', file=DEC, line=res[2], expected='decided in _decode (no decode, no reassembly access)', found=res[1], nontrivial=False)
    chk.unit('manufacturer_models', n)
    chk.floor('manufacturer_models', n, 60)
    mfr_history(chk, program, consts, sf, cf, P, ID)
    # probe is lower-cased
    fn, ex = stages['_decode']
    probes = 0
    for node in ast.walk(fn):
        if isinstance(node, ast.Compare) and len(node.ops) == 1 and isinstance(node.ops[0], (ast.In, ast.NotIn)) and isinstance(node.comparators[0], ast.Attribute) \
                and node.comparators[0].attr in ('exclude_manufacturer_code', 'include_manufacturer_code'):
            probes += 1
            probe = F._resolve_probe(fn, node.left, ex)
            # the table above ran a mixed-case claimed manufacturer against lower-cased entries: it decides; this reading of the probe's spelling confirms
            if F.lower_kind(probe, consts) == 'LOWER' or n < 60:
                chk.check(F.lower_kind(probe, consts) == 'LOWER', 'MFR-NORM', f"_decode::{ast.unparse(node.left)} in self.{node.comparators[0].attr}", file=DEC, line=node.lineno, func='_decode',
                          expected='lower-cased manufacturer name', found=show(probe)[:100])
    chk.floor('manufacturer_probes', probes, 2)

def mfr_history(chk, program, consts, sf, cf, P, ID):
    """[MFR-HIST] the manufacturer filter follows the latest claim of an address: on one interpreted decoder object (rules_filter.DecodePath), mapping
    off, with `garmin` excluded and then with `garmin` as the only included manufacturer:
      ordinary message from 7 (never claimed) -> returned;  claim from 7 by a Garmin device -> returned, stored;  ordinary from 7 -> decided by Garmin;
      claim from 7 by an Airmar device (another NAME) -> stored;  ordinary from 7 -> decided by Airmar;  ordinary from 9 (never claimed) -> returned.
    A verdict remembered per address across a claim shows up as a wrong step.  Not interpretable -> no verdict from this clause."""
    from . import absint as A
    CP, CID = consts['ISO_CLAIM_PGN'], consts['ISO_CLAIM_PGN_ID']
    fn = program.fn('decoder', f"{CLS}._decode")
    for mode in ('exclude', 'include'):
        try:
            attrs = F.runtime_attrs(program, sf, cf, consts, [], [])
            mf_attrs = F.interp_ctor(program, mfr_excl=['Garmin'] if mode == 'exclude' else [], mfr_incl=['Garmin'] if mode == 'include' else [])
            extra = {'exclude_manufacturer_code': set(mf_attrs.get('exclude_manufacturer_code') or ()), 'include_manufacturer_code': set(mf_attrs.get('include_manufacturer_code') or ()),
                     'build_network_map': False}
            if not (extra['exclude_manufacturer_code'] | extra['include_manufacturer_code']):
                raise A.Unknown('the constructor keeps the manufacturer lists somewhere else')
            dp = F.DecodePath(program, attrs, consts, extra_self=extra)
            g_ok = mode == 'include'          # is a Garmin device's traffic returned?
            steps = [('ordinary-from-7-unclaimed', P, ID, 7, 5, None, True), ('claim-by-garmin', CP, CID, 7, 111, 'Garmin', True), ('ordinary-from-7-after-garmin-claim', P, ID, 7, 5, None, g_ok),
                     ('claim-by-airmar', CP, CID, 7, 222, 'Airmar', True), ('ordinary-from-7-after-airmar-claim', P, ID, 7, 5, None, not g_ok), ('ordinary-from-9-unclaimed', P, ID, 9, 5, None, True)]
            rep = []
            for name, pgn, mid, src, nm, mfr, want in steps:
                r = dp.feed(pgn, mid, src=src, name_int=nm, mfr=mfr)
                rep.append((name, want, r['status'] == 'returned'))
        except (A.Unknown, A.RaiseSignal, teval.EvalUnknown, KeyError, AttributeError, TypeError, AnalysisError) as u:
            chk.unit(f"mfr_history_{mode}_not_interpretable", f"{type(u).__name__}: {u}"[:200])
            continue
        for name, want, got in rep:
            chk.check(want == got, 'MFR-GUARD', f"history::{mode}=garmin::{name}", file=DEC, line=fn.lineno, func='_decode', expected='returned' if want else 'withheld',
                      found='returned' if got else 'withheld', detail='' if want == got else 'the manufacturer filter does not follow the latest claim of the address')

def _isoname_semantic(program, d):
    """IsoName.__init__ interpreted on stand-in claims in which every field carries its own value: -> ({attribute: (wanted, got)}, []) for the
    attributes named after a claim field (plus `name`), None when not interpretable"""
    from . import absint as A
    from .wire import is_logger
    init = program.fn('message', 'IsoName.__init__')
    cls = program.cls('message', 'NMEA2000Message')
    methods = {n.name: n for n in cls.body if isinstance(n, ast.FunctionDef)}
    def snake(s):
        return ''.join(('_' + ch.lower()) if ch.isupper() else ch for ch in s)
    def plain(v):
        if isinstance(v, A.AInt):
            return v.v
        if isinstance(v, A.AStr):
            return v.literal()
        return v if isinstance(v, (bool, int, str)) or v is None else repr(v)
    out = {}
    try:
        for rnd, aac in enumerate(('Yes', 'No')):
            fl, want = [], {}
            for i, f_ in enumerate(d.fields):
                if f_.dbid is None:
                    continue
                if f_.type in ('NUMBER', 'MMSI'):
                    val = (3 + i + 7 * rnd) % (1 << min(f_.bit_length, 8))
                    v_ = A.AInt(val); want[f_.dbid] = val
                else:
                    txt = aac if f_.dbid == 'arbitraryAddressCapable' else f"{f_.dbid}#{rnd}"
                    v_ = A.AStr([('lit', txt)]); val = i + 1; want[f_.dbid] = txt
                fl.append(A.AObj(id=A.AStr([('lit', f_.dbid)]), value=v_, raw_value=A.AInt(val)))
            msg = A.AObj(PGN=A.AInt(d.pgn), id=A.AStr([('lit', d.id)]), fields=A.AList(fl))
            menv_ = A.ModuleEnv(program.mod('message').tree)
            for mn_, md_ in methods.items():
                if mn_ not in msg.attrs and not mn_.startswith('__'):
                    msg.attrs[mn_] = A.AFunc(md_, None, menv_, msg)
            def hook(it, call, env, msg=msg):
                f = call.func
                if isinstance(f, ast.Attribute) and isinstance(f.value, ast.Name) and env.get(f.value.id) is msg and f.attr in methods:
                    return it.call_function(methods[f.attr], [msg] + [it.expr(a, env) for a in call.args], {k.arg: it.expr(k.value, env) for k in call.keywords})
                return NotImplemented
            o = A.AObj()
            A.Interp(hook=hook, skip=is_logger, methods=methods, module=menv_).call_function(init, [o, msg, A.AInt(12345 + rnd)])
            for fid, w in want.items():
                attr = snake(fid)
                if fid in ('deviceInstanceUpper', 'deviceInstanceLower') or attr not in o.attrs:
                    continue          # the composition has its own clause; fields the identity does not keep (reserved bits) are not demanded
                if fid == 'arbitraryAddressCapable':
                    w = (w == 'Yes')
                out[f"{attr}@{rnd}"] = (w, plain(o.attrs[attr]))
            out[f"name@{rnd}"] = (12345 + rnd, plain(o.attrs.get('name')))
    except (A.Unknown, A.RaiseSignal, AttributeError, TypeError, KeyError, RecursionError):
        return None
    return out, []

def _isoname_device_instance(program, d, lower_field):
    """IsoName.__init__ interpreted (absint) on claims whose deviceInstanceUpper / deviceInstanceLower are concrete: -> list of mismatches, None when
    not interpretable"""
    from . import absint as A
    init = program.fn('message', 'IsoName.__init__')
    cls = program.cls('message', 'NMEA2000Message')
    methods = {n.name: n for n in cls.body if isinstance(n, ast.FunctionDef)}
    bad = []
    try:
        for up, lo in ((0b10101, 0b011), (1, 0), (0, 5), (31, 7)):
            fl = []
            for f_ in d.fields:
                val = {'deviceInstanceUpper': up, 'deviceInstanceLower': lo}.get(f_.dbid, 1)
                v_ = A.AInt(val) if f_.type in ('NUMBER', 'MMSI') or f_.dbid in ('deviceInstanceUpper', 'deviceInstanceLower') else A.AStr([('lit', f"{f_.dbid}#1")])
                fl.append(A.AObj(id=A.AStr([('lit', f_.dbid)]), value=v_, raw_value=A.AInt(val)))
            msg = A.AObj(PGN=A.AInt(d.pgn), id=A.AStr([('lit', d.id)]), fields=A.AList(fl))
            menv_ = A.ModuleEnv(program.mod('message').tree)
            for mn_, md_ in methods.items():
                if mn_ not in msg.attrs and not mn_.startswith('__'):
                    msg.attrs[mn_] = A.AFunc(md_, None, menv_, msg)          # bound methods: also reachable through a local alias
            def hook(it, call, env, msg=msg):
                f = call.func
                if isinstance(f, ast.Attribute) and isinstance(f.value, ast.Name) and env.get(f.value.id) is msg and f.attr in methods:
                    return it.call_function(methods[f.attr], [msg] + [it.expr(a, env) for a in call.args], {k.arg: it.expr(k.value, env) for k in call.keywords})
                return NotImplemented
            from .wire import is_logger
            o = A.AObj()
            A.Interp(hook=hook, skip=is_logger, methods=methods, module=A.ModuleEnv(program.mod('message').tree)).call_function(init, [o, msg, A.AInt(12345)])
            got = o.attrs.get('device_instance')
            want = (up << lower_field.bit_length) | lo
            if not (isinstance(got, A.AInt) and got.v == want):
                bad.append(f"upper={up}, lower={lo}: expected {want}, got {got!r}")
    except (A.Unknown, A.RaiseSignal, AttributeError, TypeError, KeyError):
        return None
    return bad

def isoname_ids(chk, program):
    consts = F.module_consts(program)
    db = program.db
    claim = [d for d in db.defs if d.pgn == consts['ISO_CLAIM_PGN']]
    if not claim:
        raise AnalysisError('database has no address-claim definition')
    d = claim[0]
    fields = {f.dbid: f for f in d.fields}
    fn = program.fn('message', 'IsoName.__init__')
    M = 'nmea2000/message.py'
    n = 0
    def snake(s):
        out = ''
        for ch in s:
            out += ('_' + ch.lower()) if ch.isupper() else ch
        return out
    # over the terms of the stores (locals and bound-method aliases substituted), not the spelling
    ex = sym.SymExec(fn)
    try:
        ex.run()
    except sym.Unsupported as u:
        raise AnalysisError(f"IsoName.__init__: {u}")
    params = ex.params
    selfp, msgp = ('param', params[0]), ('param', params[1])
    GETTERS = ('get_field_int_value_by_id', 'get_field_str_value_by_id')
    def getter_calls(t):
        return [x for x in sym.walk(t) if x[0] == 'call' and x[1][0] == 'attr' and x[1][2] in GETTERS]
    def fid_of(c):
        return c[2][0][1] if c[2] and sym.is_const(c[2][0]) else None
    for e in ex.events:
        if e[0] != 'store' or e[2][0] != 'attr' or e[2][1] != selfp:
            continue
        attr, v, line = e[2][2], e[3], e[-1]
        calls = getter_calls(v)
        for c in calls:
            n += 1
            fid = fid_of(c)
            f = fields.get(fid)
            kind = 'int' if 'int' in c[1][2] else 'str'
            okf = f is not None and c[1][1] == msgp and ((kind == 'int' and f.type in ('NUMBER',)) or (kind == 'str' and f.type in ('LOOKUP', 'INDIRECT_LOOKUP')))
            chk.check(okf, 'ISONAME-IDS', f"IsoName.{attr}::{fid}", file=M, line=line, func='IsoName.__init__',
                      expected=f"field id exists in {d.id} and is {'NUMBER' if kind == 'int' else 'a LOOKUP kind'}", found=f.type if f else 'no such field id')
            if len(calls) == 1 and f is not None:
                chk.check(snake(fid) == attr, 'ISONAME-IDS', f"IsoName.{attr}::same-name", file=M, line=line, func='IsoName.__init__', expected=snake(fid), found=attr,
                          detail='each identity attribute is filled from the field of the same name')
        if attr == 'device_instance':
            # (upper << BitLength(lower)) | lower   (also written with + or *)
            ok = False
            lf = fields.get('deviceInstanceLower')
            if v[0] == 'binop' and v[1] in ('|', '+'):
                for hi, lo in ((v[2], v[3]), (v[3], v[2])):
                    sh = None
                    if hi[0] == 'binop' and hi[1] == '<<' and sym.is_const(hi[3]):
                        up, sh = hi[2], hi[3][1]
                    elif hi[0] == 'binop' and hi[1] == '*' and sym.is_const(hi[3]) and isinstance(hi[3][1], int) and hi[3][1] > 0 and hi[3][1] & (hi[3][1] - 1) == 0:
                        up, sh = hi[2], hi[3][1].bit_length() - 1
                    if sh is not None and up[0] == 'call' and lo[0] == 'call' and fid_of(up) == 'deviceInstanceUpper' and fid_of(lo) == 'deviceInstanceLower' and lf is not None and sh == lf.bit_length:
                        ok = True
            if not ok:
                # another spelling: decided by interpreting the constructor on stand-in claims whose two instance fields are concrete
                sem_ = _isoname_device_instance(program, d, lf)
                if sem_ is None:
                    chk.unknown('ISONAME-IDS', 'IsoName.device_instance::composition', f"not of the recognised spelling and the constructor was not interpretable: {show(v)[:100]}", M, line)
                    continue
                chk.check(not sem_, 'ISONAME-IDS', 'IsoName.device_instance::composition', file=M, line=line, func='IsoName.__init__',
                          expected='(deviceInstanceUpper << BitLength(deviceInstanceLower)) | deviceInstanceLower', found='ok (constructor interpreted)' if not sem_ else sem_[:3])
                continue
            chk.check(ok, 'ISONAME-IDS', 'IsoName.device_instance::composition', file=M, line=line, func='IsoName.__init__',
                      expected='(deviceInstanceUpper << BitLength(deviceInstanceLower)) | deviceInstanceLower', found=show(v)[:120])
        if attr == 'arbitrary_address_capable':
            lit = [x for x in sym.walk(v) if sym.is_const(x) and isinstance(x[1], str) and x[1] not in fields]
            f = fields.get('arbitraryAddressCapable')
            names = [nm for vv, nm in db.lookups.get(f.lookup, [])] if f is not None and f.lookup else []
            chk.check(len(lit) == 1 and lit[0][1] in names, 'ISONAME-IDS', 'IsoName.arbitrary_address_capable::literal', file=M, line=line, func='IsoName.__init__',
                      expected=f"compared with a name of lookup {f.lookup if f else '?'} ({names})", found=[x[1] for x in lit])
        if attr == 'name':
            chk.check(v == ('param', params[2]), 'ISONAME-IDS', 'IsoName.name', file=M, line=line, expected='the 64-bit NAME handed in', found=show(v), nontrivial=False)
    if n < 9:
        # the constructor does not read the fields in the recognised spelling (a table of field ids, a loop): decided by interpreting it on
        # stand-in claims whose fields all carry different values
        sem_ = _isoname_semantic(program, d)
        if sem_ is not None:
            cmp_, bad_ = sem_
            for attr, (want, got) in sorted(cmp_.items()):
                n += 1
                chk.check(want == got, 'ISONAME-IDS', f"IsoName.{attr}::interpreted", file=M, line=fn.lineno, func='IsoName.__init__',
                          expected=f"the value of the claim field of the same name: {want!r}", found=repr(got))
    chk.floor('isoname_field_reads', n, 9)
