"""C19 -- send() writes the encoder's packets contiguously; bad messages are harmless."""
from .. import rules_client as K

LEVEL = 'other'
EXPLANATION = (
    "[SEND-ATOMIC] all writer.write calls for one message lie in one atomic section of AsyncIOClient.send: either no await node lies on a "
    "CFG path from one write to the next, or the whole loop is inside `async with` on an asyncio.Lock owned by the instance (or an explicit "
    "acquire / finally-release pair). [SEND-ENCODE-FIRST] the single _encode_impl call dominates the first write and is outside the loop. "
    "[SEND-ORDER] the loop iterates the list returned by _encode_impl directly and writes its loop variable; drain follows write. "
    "[SEND-RAISES] the explicit-raise set of every _encode_impl implementation, closed over the resolved call graph (encoder, dynamic "
    "per-PGN functions correlated per PGN group), is contained in the types the log-and-drop handler catches, and that handler touches "
    "neither state nor connection; anything else would reach the generic handler = connection-loss path. [SEND-TYPES] every _encode_impl returns the result of an encoder method annotated -> list[bytes]. UNDECIDED: transport flow "
    "control itself, implicit exceptions (AttributeError on malformed message objects)."
    ' [SEND-ATOMIC release-by-owner] every explicit <lock>.release() in send()/connect() is preceded on all paths by the matching acquire of the same invocation (an exception raised before the acquire must not release a lock another sender holds). Assertions are taken as holding: an assert contributes what evaluating its condition can raise, not AssertionError.'
    ' Fifth round: a path through a fault handler is a witness only when no undecided test on it reads something of the client that may stand for the connection state; start / get / put sites that moved into helpers, an attempt or a callback inside a `with` over an unknown context manager, and reads made through helpers are undecided; a helper coroutine runs under the lock when every call (or hand-over as a value) of it does.'
    " Seventh round: [ENC-STATE] (C02's clause) is run here as well: the bytes of a message do not depend on which messages the encoder object encoded before, the sequence counter aside."
    ' Eighth round: [SEND-ATOMIC] write-under-the-send-lock -- every self.writer.write outside send() and _connect_impl is inside `async with self.<lock>`, or in a private method all of whose call sites are.'
)
ASSUMPTIONS = ["CPython ast parser", "asyncio: tasks interleave only at a suspending await", "asyncio.Lock gives mutual exclusion between coroutines",
               "builtin exception hierarchy of the analysing interpreter", "StreamWriter.write does not suspend"]

def run(chk, program, tier):
    for r, t in (('SEND-ATOMIC', 'writes of one message in one atomic section'), ('SEND-ENCODE-FIRST', 'encode dominates first write'),
                 ('SEND-ORDER', 'packets written in list order'), ('SEND-RAISES', 'unsendable message -> log and drop only'), ('SEND-TYPES', 'what reaches writer.write is bytes')):
        chk.rule(r, t)
    K.send_rules(chk, program)
    K.other_writers(chk, program)
    K.lock_owner(chk, program)
    chk.rule('FAULT-PATH', 'a failing write reports DISCONNECTED and starts a reconnect, every time (C13)')
    from .c16 import _Sub
    K.fault_path(_Sub(chk, {'FAULT-PATH'}), program)
    K.send_types(chk, program)
    # what send() writes for a message depends on that message alone: the encoder keeps no state between messages besides the sequence counter (C02's clause)
    chk.rule('ENC-STATE', 'encoder keeps no state between messages besides the fast-packet sequence counter (C02)')
    from .. import rules_enc as _RE
    _RE.enc_state(_Sub(chk, {'ENC-STATE'}), program)
