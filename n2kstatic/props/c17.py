"""C17 -- identity hash depends exactly on message kind and primary-key fields."""
from .. import rules_gen as R

LEVEL = 'translation_validation'
EXPLANATION = (
    "[PK-FLAG] translation validation: the part_of_primary_key argument of every reachable generated field constructor equals the "
    "database flag (and the id slot equals the database id, which is what the hash starts from). [HASH-DEPS] in "
    "NMEA2000Message.add_data the hashed string depends exactly on {message id} + {raw_value of fields guarded by "
    "part_of_primary_key}, in field order, through hashlib (never builtin hash); hash is None when mapping is off. [HASH-ORDER] "
    "add_data precedes apply_preferred_units in the decoder and neither writes raw_value or id. HASH-DEPS is decided by interpreting NMEA2000Message.add_data over abstract values with hashlib recorded: with mapping off the hash stays None; with it on the digest input is exactly the id followed, for the key fields in field order (including one whose raw value is absent), by a constant non-numeric separator and str(raw value) -- any spelling (concatenation, join, piecewise update). UNDECIDED: injectivity of the "
    "'_'-joined string and of MD5."
    ' Fifth round: [HASH-DEPS history] add_data interpreted on one module state for five concrete messages in a row (another definition with the same PGN and key values must hash differently, a non-key change must not change the hash, a key change must, a repeat gives the same hash): state the module keeps between calls is part of the run. [HASH-ORDER] the order of add_data and apply_preferred_units is a violation only when the conversion writes raw_value / id / part_of_primary_key (otherwise either order gives the same hash).'
    ' Eighth round: [HASH-DEPS] hash-computed-over-all-decoded-fields -- under every option world add_data is called while the message still holds exactly the fields the generated decoder returned (absent key fields included).'
    ' Ninth round: [HASH-DEPS] hash-is-a-function-of-the-message-alone -- on the interpreted decode path (mapping on, every option world) two definitions of one PGN number with the key flags on different positions are fed in the orders X,Y,X and Y,X,Y; what the call site binds to add_data is handed to the interpreted add_data, and every hash must equal the one a fresh decoder gives the same message and the one add_data alone computes. An optional add_data parameter is read at its default by the stand-alone clauses; when the call site binds one and the decode path is not interpretable the rule refuses.'
)
ASSUMPTIONS = ["CPython ast parser", "canboat.json is the oracle", "hashlib.md5 is deterministic across processes",
               "dataclass positional binding follows annotated-field order of message.py"]

def run(chk, program, tier):
    chk.rule('PK-FLAG', 'part_of_primary_key / id of every generated field == database')
    R.gen_dec(chk, program, slots=['id', 'part_of_primary_key', 'raw_value'], rule='PK-FLAG', with_msg=True, with_flow=False)
    from .. import rules_msg
    rules_msg.hash_rules(chk, program)
    from .. import rules_filter as F_
    F_.hash_sees_every_field(chk, program)
    F_.hash_through_decoder(chk, program)
    chk.unit('programs', chk.units.get('decoders_matched', 0))
    chk.floor('field_rows', chk.units.get('field_rows', 0), 3000)
