"""C03 -- fast-packet segmentation and reassembly are inverse for every payload length."""
import ast

from .. import sym, absint as A, bitprov as B, rules_gen as R
from ..sym import C, NONE
from ..model import AnalysisError

LEVEL = 'other'
ENC = 'nmea2000/encoder.py'
DEC = 'nmea2000/decoder.py'
EXPLANATION = (
    "Encoder side, by abstract interpretation of NMEA2000Encoder._encode_fast_message in the byte-provenance domain (absint.py: lengths, counts and the "
    "3-bit sequence counter concrete, byte contents symbolic), exhaustively for every payload length 0..223 x every sequence-counter state 0..7: "
    "[FP-LEN] every frame has 1..8 bytes; [FP-HDR] byte 0 of frame i is (seq<<5)|i with i<32, byte 1 of frame 0 is the payload length; [FP-COUNT] "
    "the payload bytes carried by the frames, in frame order, are payload[0..L-1] exactly once each, no frame after frame 0 is empty, none is missing; "
    "[FP-SEQ] the counter ends at a different 3-bit value. Decoder side, structurally on _decode_fast_message (sym.py terms + bitprov): [FP-HDR-DEC] "
    "sequence and frame counter are extracted from the wire-first byte with exactly the provenance the encoder writes (seq[0:3]@5, frame[0:5]@0), the "
    "announced length is read from the wire-second byte of a frame whose counter is 0; [FP-STRIP] 2 header bytes are stripped from frame 0 and 1 from "
    "later frames (= the encoder's 6/7 capacities with 8-byte frames). [FP-TYPE] is_fast_pgn_<PGN> returns Type=='Fast' for every PGN group and both "
    "encode and decode consult it through NMEA2000Decoder._isFastPGN. [RA-COUNT]/[RA-DONE]/[RA-ORDER]/[RA-TRUNC]: C04's clauses on counting, completion, order and "
    "truncation. [FP-ROUNDTRIP] the segmenter's abstract frames are fed in order (byte-reversed, as every front-end does) to _decode_fast_message interpreted "
    "over the same domain with an abstract buffer map: nothing is delivered before the last frame, then exactly one delivery carries payload[0..L-1], and the "
    "record is deleted (boundary lengths x counter states in the quick tier, all 224 x 8 in the thorough tier; every branch of the reassembler depends on counters "
    "and lengths only, so the interpretation is total). The decoder-side structural rules (FP-HDR-DEC, FP-STRIP) and RA-* are confirmations since the third round: the verdict comes from FP-ROUNDTRIP (headers concrete for every counter value) and from the interpreted frame histories of rules_reasm.py. UNDECIDED: payloads longer than 223 bytes; delivery through the public entry points with a real PGN's "
    "field decoder on top (C01/C07)."
    ' Fifth round: the initial sequence counter is read off the interpreted constructor.'
)
ASSUMPTIONS = ["CPython ast parser", "absint.py transfer functions (bytes concatenation, slicing, bytes([..]), int arithmetic on shape integers)",
               "bitprov.py transfer functions", "frames reach the decoder byte-reversed (C07 FE-ORIENT)"]

def run(chk, program, tier):
    for r, t in (('FP-LEN', 'frame length 1..8'), ('FP-HDR', 'header bytes written'), ('FP-COUNT', 'payload partition exact'), ('FP-SEQ', 'sequence counter advances mod 8'),
                 ('FP-HDR-DEC', 'decoder header extraction matches'), ('FP-STRIP', 'decoder strips 2 / 1 header bytes'), ('FP-TYPE', 'is_fast per PGN group == database'), ('FP-ROUNDTRIP', 'segmenter composed with reassembler in the provenance domain'), ('RA-COUNT', 'completion counts exactly the stored payload bytes'), ('RA-DONE', 'delivered when stored >= announced, not before'),
                 ('RA-ORDER', 'frames concatenated in counter order'), ('RA-TRUNC', 'payload cut to the announced length')):
        chk.rule(r, t)
    fn = program.fn('encoder', 'NMEA2000Encoder._encode_fast_message')
    init = program.fn('encoder', 'NMEA2000Encoder.__init__')
    # initial counter: instance state set in __init__
    ini = [n for n in ast.walk(init) if isinstance(n, ast.Assign) and any(isinstance(t, ast.Attribute) and t.attr == 'sequence_counter' for t in n.targets)]
    # decided on the interpreted constructor: whatever the spelling, a new encoder object carries sequence_counter in 0..7
    from .. import absint as A_
    v0 = 'not interpretable'
    try:
        o_ = A_.AObj()
        ecls = program.cls('encoder', 'NMEA2000Encoder')
        A_.Interp(methods={n.name: n for n in ecls.body if isinstance(n, ast.FunctionDef)}, module=A_.ModuleEnv(program.mod('encoder').tree)).call_function(init, [o_])
        v0 = o_.attrs.get('sequence_counter', 'absent')
    except (A_.Unknown, A_.RaiseSignal, AttributeError, TypeError, KeyError):
        pass
    if isinstance(v0, A_.AInt) and v0.v is not None:
        chk.check(v0.v in range(8), 'FP-SEQ', '__init__::counter-initialised', file=ENC, line=init.lineno, func='__init__', expected='a new encoder has sequence_counter in 0..7 (instance state)', found=v0.v)
    elif not ini:
        chk.unknown('FP-SEQ', '__init__::counter-initialised', f"the constructor leaves no plain attribute sequence_counter ({v0 if isinstance(v0, str) else type(v0).__name__}): where the counter lives was not followed", ENC, init.lineno)
    else:
        chk.check(len(ini) == 1 and isinstance(ini[0].value, ast.Constant) and ini[0].value.value in range(8), 'FP-SEQ', '__init__::counter-initialised', file=ENC,
                  line=init.lineno, func='__init__', expected='self.sequence_counter = <0..7> in __init__ (instance state)', found=ast.unparse(ini[0]) if ini else 'absent')
    runs = segmenter_sweep(chk, program, range(0, 224), range(8))
    chk.unit('abstract_runs', runs)
    chk.floor('abstract_runs', runs, 1792)
    # the structural reading of the decoder side (which bits, which slices) confirms where it recognises the spelling;
    # what decides is the composition below: headers are concrete there (every counter value), so a wrong mask, shift or strip shows up in it
    from .. import rules_reasm as RR
    co = RR._ConfirmOnly(chk, {'FP-HDR-DEC', 'FP-STRIP'})
    try:
        decoder_side(co, program, fn)
    except AnalysisError as e:
        co.unrecognised.append(f"decoder_side gave up: {e}")
    except sym.Unsupported as e:
        co.unrecognised.append(f"decoder_side gave up: {e}")
    chk.unit('decoder_side_shapes_not_recognised', co.unrecognised)
    # composition segmenter -> reassembler: every length in the thorough tier, the boundary lengths in the quick tier (all counter states for a few)
    if tier == 'thorough':
        n = roundtrip(chk, program, fn, range(0, 224), range(8))
    else:
        edge = sorted(set(list(range(0, 22)) + [27, 28, 34, 35, 41, 42, 43, 48, 49, 50, 62, 63, 97, 98, 132, 133, 216, 217, 218, 222, 223]))
        n = roundtrip(chk, program, fn, edge, (0, 7)) + roundtrip(chk, program, fn, (6, 7, 13, 14), range(1, 7))
    chk.unit('roundtrip_compositions', n)
    chk.floor('roundtrip_compositions', n, 100)
    if co.unrecognised and not any(o.status == 'violation' and o.rule == 'FP-ROUNDTRIP' for o in chk.obs):
        for r in ('FP-HDR-DEC', 'FP-STRIP'):
            chk.ok(r, 'decided-by-composition', file=DEC, line=0, detail=f"{n} segmenter/reassembler compositions with concrete headers deliver payload[0..L-1]")
    n = R.fp_type(chk, program)
    chk.floor('is_fast_functions', n, 270)
    same_isfast(chk, program)
    from .. import rules_reasm as RR
    RR.decide(chk, program, tier, ['RA-COUNT', 'RA-DONE', 'RA-ORDER', 'RA-TRUNC'])

def roundtrip(chk, program, encfn, lengths, seqs):
    """[FP-ROUNDTRIP] composition in the provenance domain: the frames the segmenter produces are handed, in order and byte-reversed as every
    front-end does (C07 FE-ORIENT), to _decode_fast_message interpreted over the same domain with an abstract buffer map.  All of its branch
    conditions depend on counters and lengths only (shape), never on payload contents, so the interpretation is total.  Obligations per
    (length, counter): nothing is handed to the decoder before the last frame; at the last frame exactly one call of
    _call_decode_function carries payload[0..L-1] (reversed); the record is gone afterwards."""
    dfn = program.fn('decoder', 'NMEA2000Decoder._decode_fast_message')
    classes = {'fast_pgn_metadata': program.cls('decoder', 'fast_pgn_metadata')}
    n = 0
    for L in lengths:
        for seq in seqs:
            selfo = W_.fresh_encoder(program, seq)
            payload = A.ABytes([A.sym_byte('payload', i) for i in range(L)])
            try:
                _check_counter(selfo)
                frames = _enc_interp(program).call_function(encfn, [selfo, A.AInt(None), A.AInt(None), A.AInt(None), A.AInt(None), payload])
            except A.RaiseSignal:
                continue          # reported by FP-LEN
            except A.Unknown as u:
                chk.unknown('FP-ROUNDTRIP', f"encode@L={L}", str(u), ENC, encfn.lineno); return n
            delivered = []
            def hook(it, call, env):
                name = ast.unparse(call.func)
                if name == 'self._call_decode_function':
                    delivered.append([it.expr(a, env) for a in call.args])
                    return A.AObj(marker=True)
                return NotImplemented
            from ..wire import is_logger
            dec = A.AObj(data=A.ADict())
            it = A.Interp(hook=hook, skip=is_logger, classes=dict(_dec_classes(program), **classes), methods=_dec_methods(program), module=A.ModuleEnv(program.mod('decoder').tree))
            early = None
            try:
                for i, f in enumerate(frames.items):
                    rev = A.ABytes(list(reversed(f.items)))
                    r = it.call_function(dfn, [dec, A.AInt(130000), A.AInt(3), A.AInt(1), A.AInt(255), A.AOpaque('ts'), rev, None, A.AOpaque('raw')])
                    if i < len(frames.items) - 1 and (r is not None or delivered):
                        early = i
                        break
            except (A.Unknown, A.RaiseSignal) as u:
                chk.unknown('FP-ROUNDTRIP', f"decode@L={L},seq={seq}", str(getattr(u, 'node', u))[:120] if isinstance(u, A.RaiseSignal) else str(u), DEC, dfn.lineno); return n
            n += 1
            inst = f"L={L},seq={seq}"
            want = list(reversed(payload.items))
            ok = early is None and len(delivered) == 1 and isinstance(delivered[0][5], A.ABytes) and delivered[0][5].items == want and not dec.attrs['data'].items
            found = 'ok'
            if not ok:
                if early is not None:
                    found = f"a message was returned after frame {early} of {len(frames.items)}"
                elif len(delivered) != 1:
                    found = f"{len(delivered)} messages delivered after all {len(frames.items)} frames"
                elif dec.attrs['data'].items:
                    found = 'the reassembly record survives delivery'
                else:
                    got = delivered[0][5]
                    found = f"payload of {len(got.items) if isinstance(got, A.ABytes) else '?'} bytes differs from the {L} bytes sent"
            chk.check(ok, 'FP-ROUNDTRIP', f"segment+reassemble@{inst}", file=DEC, line=dfn.lineno, func='_decode_fast_message',
                      expected='nothing before the last frame, then exactly one delivery of payload[0..L-1]; record deleted', found=found)
    return n

from .. import wire as W_

class _Enc:
    """the encoder stand-in of the sweeps; interpreting with it raises Unknown when the constructor keeps the sequence counter somewhere the sweep
    cannot set (a property, a helper object): no verdict then"""
    @staticmethod
    def fresh(program, seq):
        o = W_.fresh_encoder(program, seq)
        return o

def _check_counter(selfo):
    if selfo.attrs.get('__counter_elsewhere__'):
        raise A.Unknown('the constructor leaves no plain attribute sequence_counter: where the counter lives was not followed')

def _enc_interp(program):
    """an interpreter that sees the encoder's other methods (helpers of the segmenter) and the module's names (hoisted constants, helper functions)"""
    from ..wire import is_logger
    cls = program.cls('encoder', 'NMEA2000Encoder')
    methods = {n.name: n for n in cls.body if isinstance(n, (ast.FunctionDef, ast.AsyncFunctionDef))}
    return A.Interp(methods=methods, skip=is_logger, module=A.ModuleEnv(program.mod('encoder').tree))

def _dec_methods(program):
    cls = program.cls('decoder', 'NMEA2000Decoder')
    return {n.name: n for n in cls.body if isinstance(n, (ast.FunctionDef, ast.AsyncFunctionDef))}

def _dec_classes(program):
    return {c: d for c, d in program.mod('decoder').classes.items() if c != 'NMEA2000Decoder'}

def segmenter_sweep(chk, program, lengths, seqs):
    fn = program.fn('encoder', 'NMEA2000Encoder._encode_fast_message')
    consts_ = A.class_constants(None, program.cls('encoder', 'NMEA2000Encoder'))
    params = [a.arg for a in fn.args.args]
    if len(params) != 6:
        raise AnalysisError('_encode_fast_message signature changed: ' + str(params))
    runs = 0
    bad_seen = set()
    for L in lengths:
        for seq in seqs:
            selfo = W_.fresh_encoder(program, seq)
            payload = A.ABytes([A.sym_byte('payload', i) for i in range(L)])
            it = _enc_interp(program)
            try:
                _check_counter(selfo)
                frames = it.call_function(fn, [selfo, A.AInt(None), A.AInt(None), A.AInt(None), A.AInt(None), payload])
            except A.RaiseSignal as r:
                chk.violation('FP-LEN', f"_encode_fast_message@L={L},seq={seq}", file=ENC, line=r.node.lineno, func='_encode_fast_message',
                              expected='frames for every payload length 0..223', found=f"raises: {ast.unparse(r.node)[:80]}",
                              detail=f"a legal fast-packet payload of {L} bytes cannot be segmented")
                continue
            except A.Unknown as u:
                chk.unknown('FP-LEN', f"_encode_fast_message@L={L},seq={seq}", str(u), ENC, fn.lineno)
                return runs
            runs += 1
            inst = f"L={L},seq={seq}"
            if not isinstance(frames, A.AList) or not all(isinstance(f, A.ABytes) for f in frames.items):
                chk.unknown('FP-LEN', inst, 'result is not a list of bytes', ENC, fn.lineno)
                return runs
            fl = [len(f) for f in frames.items]
            okl = bool(fl) and all(1 <= x <= 8 for x in fl)
            _c(chk, bad_seen, okl, 'FP-LEN', inst, fn, expected='every frame has 1..8 bytes', found=fl if not okl else 'ok')
            # header bytes
            hdr_ok = True; why = ''
            carried = []
            for i, f in enumerate(frames.items):
                if not f.items:
                    hdr_ok = False; why = f"frame {i} empty"; break
                b0 = f.items[0]
                if b0 != ('c', ((seq << 5) | i) & 0xFF) or i >= 32:
                    hdr_ok = False; why = f"frame {i} byte0 {b0} != {(seq << 5) | i}"; break
                body = f.items[1:]
                if i == 0:
                    if len(body) < 1 or body[0] != ('c', L):
                        hdr_ok = False; why = f"frame 0 byte1 {body[:1]} != length {L}"; break
                    body = body[1:]
                if i > 0 and not body:
                    hdr_ok = False; why = f"frame {i} carries no data"; break
                carried.append(body)
            _c(chk, bad_seen, hdr_ok, 'FP-HDR', inst, fn, expected='byte0=(seq<<5)|frame, frame0 byte1=len(payload), later frames non-empty', found=why or 'ok')
            flat = [b for body in carried for b in body]
            okc = flat == [A.sym_byte('payload', i) for i in range(L)]
            _c(chk, bad_seen, okc, 'FP-COUNT', inst, fn, expected=f"frames carry payload[0..{L - 1}] once each, in order", found='ok' if okc else f"{len(flat)} bytes carried instead of {L}")
            cap_ok = all(len(b) <= (6 if i == 0 else 7) for i, b in enumerate(carried)) and all(len(b) == (6 if i == 0 else 7) for i, b in enumerate(carried[:-1]))
            _c(chk, bad_seen, cap_ok, 'FP-COUNT', inst + '::capacities', fn, expected='6 data bytes in frame 0, 7 in every later frame, only the last frame short', found=[len(b) for b in carried] if not cap_ok else 'ok')
            after = selfo.attrs.get('sequence_counter')
            oks = isinstance(after, A.AInt) and after.v is not None and 0 <= after.v <= 7 and after.v != seq
            _c(chk, bad_seen, oks, 'FP-SEQ', inst, fn, expected='counter in 0..7 and different from the previous message', found=repr(after))
    return runs

def _c(chk, seen, ok, rule, inst, fn, expected, found):
    chk.check(ok, rule, f"_encode_fast_message@{inst}", file=ENC, line=fn.lineno, func='_encode_fast_message', expected=expected, found=found)

def decoder_side(chk, program, encfn):
    fn = program.fn('decoder', 'NMEA2000Decoder._decode_fast_message')
    ex = sym.SymExec(fn)
    try:
        ex.run()
    except sym.Unsupported as u:
        raise AnalysisError(f"_decode_fast_message: {u}")
    params = ex.params
    data = None
    for p in params:
        if p == 'can_data':
            data = ('param', p)
    if data is None:
        raise AnalysisError('_decode_fast_message: parameter can_data vanished')
    # the store of the frame: fast_pgn.frames[frame_counter] = data_payload
    stores = [e for e in ex.events if e[0] == 'store' and e[2][0] == 'sub' and e[2][1][0] == 'attr' and e[2][1][2] == 'frames']
    if len(stores) != 1:
        raise AnalysisError(f"_decode_fast_message: expected one store into .frames[...], found {len(stores)}")
    st = stores[0]
    fc_term = st[2][2]
    payload_term = st[3]
    # wire-first byte = reversed[-1]
    first = ('sub', data, C(-1))
    second = ('sub', data, C(-2))
    # provenance of the encoder's byte 0: interpret once with a symbolic 3-bit counter
    selfo = W_.fresh_encoder(program, A.AInt(None, [('seq', 0), ('seq', 1), ('seq', 2)]))
    frames = None
    for plen in (223, 216, 100):
        try:
            _check_counter(selfo)
            frames = _enc_interp(program).call_function(encfn, [selfo, A.AInt(None), A.AInt(None), A.AInt(None), A.AInt(None), A.ABytes([A.sym_byte('payload', i) for i in range(plen)])])
            break
        except A.RaiseSignal:
            continue        # a length the segmenter refuses is reported by FP-LEN
        except A.Unknown as u:
            chk.unknown('FP-HDR-DEC', 'encoder byte0 provenance', str(u), ENC, encfn.lineno)
            break
    if frames is not None:
        for i, f in enumerate(frames.items):
            b0 = f.items[0]
            vec = list(b0[1]) if b0[0] == 'b' else (B.const_bits(b0[1]) if b0[0] == 'c' else None)
            if vec is None:
                chk.unknown('FP-HDR-DEC', f"frame{i}", 'byte 0 has no bit provenance', ENC, encfn.lineno)
                continue
            env = {first: vec}
            try:
                fcv = B.trim(B.bits(fc_term, {}, env=env))
                # sequence counter: the term compared with fast_pgn.sequence_counter
                seq_terms = set()
                for e in ex.events:
                    for g in sym.conj(e[1]):
                        for s_ in sym.walk(g):
                            if s_[0] == 'cmp' and s_[1] in ('!=', '==') and (s_[3][0] == 'attr' and s_[3][2] == 'sequence_counter'):
                                seq_terms.add(s_[2])
                            if s_[0] == 'cmp' and s_[1] in ('!=', '==') and (s_[2][0] == 'attr' and s_[2][2] == 'sequence_counter'):
                                seq_terms.add(s_[3])
                okf = fcv == B.const_bits(i)
                chk.check(okf, 'FP-HDR-DEC', f"frame{i}::frame-counter", file=DEC, line=fn.lineno, func='_decode_fast_message',
                          expected=f"frame counter {i} recovered from the wire-first byte ({B.show_vec(vec)})", found=B.show_vec(fcv))
                chk.check(len(seq_terms) == 1, 'FP-HDR-DEC', f"frame{i}::one-sequence-term", file=DEC, line=fn.lineno, expected='one extracted sequence counter', found=len(seq_terms), nontrivial=False)
                for sterm in seq_terms:
                    sv = B.trim(B.bits(sterm, {}, env=env))
                    chk.check(sv == [('seq', 0), ('seq', 1), ('seq', 2)], 'FP-HDR-DEC', f"frame{i}::sequence-counter", file=DEC, line=fn.lineno, func='_decode_fast_message',
                              expected='seq[0:3]', found=B.show_vec(sv))
            except (B.Top, B.NeedBranch) as t:
                chk.unknown('FP-HDR-DEC', f"frame{i}", f"bit provenance gave up: {t}", DEC, fn.lineno)
    # FP-STRIP: payload term = ite(first-frame-cond, data[:-2], data[:-1]); announced length = data[-2] on the first-frame path
    strip_first = ('sub', data, ('slice', NONE, C(-2), NONE))
    strip_later = ('sub', data, ('slice', NONE, C(-1), NONE))
    # collect leaves of the ite
    def leaves(t):
        if t[0] == 'ite':
            return leaves(t[2]) + leaves(t[3])
        return [t]
    lv = [x for x in leaves(payload_term) if x != sym.UNDEF]
    chk.check(set(lv) == {strip_first, strip_later}, 'FP-STRIP', 'payload-slices', file=DEC, line=st[-1], func='_decode_fast_message',
              expected='frame 0: all but the 2 wire-first bytes (counter, length); later frames: all but the wire-first byte', found=[sym.show(x) for x in lv])
    # which condition selects the 2-byte strip: must include frame_counter == 0
    if payload_term[0] == 'ite':
        cond = payload_term[1]
        has_fc0 = any(s_ == ('cmp', '==', fc_term, C(0)) for s_ in sym.walk(cond))
        chk.check(has_fc0 and payload_term[2] == strip_first, 'FP-STRIP', 'first-frame-condition', file=DEC, line=st[-1], func='_decode_fast_message',
                  expected='the 2-byte strip is selected by frame_counter == 0', found=sym.show(cond))
    # announced length
    pl = [e for e in ex.events if e[0] == 'store' and e[2][0] == 'attr' and e[2][2] == 'payload_length']
    chk.check(len(pl) == 1 and pl[0][3] == second and any(s_ == ('cmp', '==', fc_term, C(0)) for g in pl[0][1] for s_ in sym.walk(g)), 'FP-HDR-DEC', 'announced-length',
              file=DEC, line=pl[0][-1] if pl else fn.lineno, func='_decode_fast_message', expected='payload_length = wire-second byte, only when frame_counter == 0',
              found=[sym.show(e[3]) for e in pl])
    # encoder capacities vs 8-byte frames: 8 - 2 = 6, 8 - 1 = 7 (capacities were checked per length above)
    chk.ok('FP-STRIP', 'capacities-agree', file=DEC, line=fn.lineno, detail='encoder capacities (6,7) = 8 - stripped header bytes (2,1)')

def same_isfast(chk, program):
    enc = program.fn('encoder', 'NMEA2000Encoder._encode')
    dec = program.fn('decoder', 'NMEA2000Decoder._decode')
    isf = program.fn('decoder', 'NMEA2000Decoder._isFastPGN')
    def calls(fn):
        return [ast.unparse(n.func) for n in ast.walk(fn) if isinstance(n, ast.Call) and isinstance(n.func, ast.Attribute) and n.func.attr == '_isFastPGN']
    chk.check(calls(enc) == ['NMEA2000Decoder._isFastPGN'] and calls(dec) == ['NMEA2000Decoder._isFastPGN'], 'FP-TYPE', 'one-oracle', file=ENC, line=enc.lineno,
              expected='encode and decode both decide single/fast through NMEA2000Decoder._isFastPGN', found={'encode': calls(enc), 'decode': calls(dec)})
    ex = sym.SymExec(isf)
    fs = [ex.expr(n) for n in ast.walk(isf) if isinstance(n, ast.JoinedStr)]
    shapes = []
    for t in fs:
        if t[0] == 'fstr':
            shapes.append(''.join(p[1] if p[0] == 'const' else '{' + (p[1][1] if p[1][0] == 'param' else '?') + '}' for p in t[1]))
    p0 = ex.params[0]
    shapes = [x for x in shapes if x.startswith('is_fast_pgn_')]
    chk.anchor(shapes == ['is_fast_pgn_{' + p0 + '}'], 'FP-TYPE', '_isFastPGN::name-formation', file=DEC, line=isf.lineno, expected='is_fast_pgn_{pgn}', found=shapes)
    # encoder: the fast path is taken exactly when the oracle says fast
    g = sym.SymExec(enc)
    try:
        g.run()
    except sym.Unsupported as u:
        raise AnalysisError(str(u))
    rets = [e for e in sym.split_ite_events(g.events) if e[0] == 'return']
    fast_call = [e for e in rets if e[2][0] == 'call' and e[2][1][0] == 'attr' and e[2][1][2] == '_encode_fast_message']
    single = [e for e in rets if e[2][0] == 'list']
    okk = len(fast_call) == 1 and len(single) == 1
    if okk:
        cond = sym.conj(fast_call[0][1])[-1]
        okk = cond[0] == 'call' and cond[1][0] == 'attr' and cond[1][2] == '_isFastPGN' and sym.conj(single[0][1])[-1] == sym.mk_not(cond)
        # the payload handed on is the encoder function's result in both arms
        pay = fast_call[0][2][2][-1]
        okk = okk and single[0][2][1] == (pay,)
    sem = _encode_branch_semantic(program, enc)
    if sem is not None:
        # decided on the interpreted _encode, the oracle answered both ways: whatever the spelling of the branch
        chk.check(not sem, 'FP-TYPE', '_encode::branch', file=ENC, line=enc.lineno, func='_encode',
                  expected='fast PGN -> the result of _encode_fast_message(.., payload); otherwise [payload]', found='ok (interpreted, oracle answered both ways)' if not sem else sem)
        return
    if okk:
        chk.check(True, 'FP-TYPE', '_encode::branch', file=ENC, line=enc.lineno, func='_encode', expected='fast PGN -> _encode_fast_message(payload); otherwise [payload]', found='ok (structural)')
    else:
        chk.unknown('FP-TYPE', '_encode::branch', f"_encode is neither interpretable nor of the recognised shape: {[sym.show(e[2])[:80] for e in rets]}", ENC, enc.lineno)

def _encode_branch_semantic(program, enc):
    """NMEA2000Encoder._encode interpreted with NMEA2000Decoder._isFastPGN answered True and False: -> list of mismatches ([] = as the property wants),
    None when not interpretable"""
    from ..wire import is_logger
    bad = []
    try:
        for fast, plen in ((True, 20), (True, 4), (True, 6), (True, 7), (False, 8), (False, 3)):
            payload = A.ABytes([A.sym_byte('payload', i) for i in range(plen)])
            marker = A.AList([A.ABytes([('c', 1)])])
            calls = []
            def hook(it, call, env, fast=fast, payload=payload, marker=marker, calls=calls):
                nm = ast.unparse(call.func)
                if nm.endswith('_isFastPGN'):
                    return fast
                if nm.endswith('._call_encode_function'):
                    return payload
                if nm.endswith('._encode_fast_message'):
                    calls.append([it.expr(a, env) for a in call.args])
                    return marker
                return NotImplemented
            cls = program.cls('encoder', 'NMEA2000Encoder')
            methods = {n.name: n for n in cls.body if isinstance(n, (ast.FunctionDef, ast.AsyncFunctionDef))}
            msg = A.AObj(PGN=A.AInt(130306), source=A.AInt(0x21), destination=A.AInt(0x42), priority=A.AInt(5), id=A.AStr([('lit', 'windData')]), fields=A.AList([]))
            it = A.Interp(hook=hook, skip=is_logger, methods=methods, module=A.ModuleEnv(program.mod('encoder').tree))
            r = it.call_function(enc, [W_.fresh_encoder(program, 3), msg])
            if fast:
                if len(calls) != 1 or not calls[0] or calls[0][-1] is not payload:
                    bad.append(f"fast PGN, payload of {plen} bytes: _encode_fast_message called {len(calls)} times" + ('' if len(calls) != 1 else ' with something else than the encoded payload'))
                elif r is not marker:
                    bad.append('fast PGN: what _encode returns is not what _encode_fast_message returned')
            else:
                if calls:
                    bad.append('single-frame PGN: _encode_fast_message is called')
                elif not (isinstance(r, (A.AList, list, tuple)) and len(r.items if isinstance(r, A.AList) else r) == 1 and (r.items if isinstance(r, A.AList) else r)[0] is payload):
                    bad.append(f"single-frame PGN: _encode returns {r!r}"[:120] + ' instead of [payload]')
    except (A.Unknown, A.RaiseSignal, A.PyError, KeyError, AttributeError, TypeError, RecursionError):
        return None
    return bad
