"""C07 -- the same CAN frame decodes identically through every input format."""
import ast

from .. import absint as A, bitprov as B, wire as W, sym
from ..model import AnalysisError

LEVEL = 'other'
DEC = 'nmea2000/decoder.py'
EXPLANATION = (
    "Single shared path + front-end normal form. [FE-FUNNEL] each of the five public decode_* methods ends in exactly one call of _decode, and "
    "_decode / _decode_fast_message / _call_decode_function are called from nowhere else in the package. The five front-ends are interpreted over "
    "the byte/bit-provenance domain (absint.py) on one abstract CAN frame (identifier id[0:29], n symbolic data bytes) rendered in each input "
    "format (EByte binary, USB binary, Yacht Devices text incl. T/R marker and lower-case hex, Actisense text, canboat plain text): [FE-ROLE] the "
    "values bound to _decode's parameters carry the matching role -- PGN/priority/source/destination are the tuple positions of _extract_header "
    "applied to id[0:29] bit for bit (or the text header's bit slices / decimal tokens); [FE-ORIENT] the data argument is the frame's bytes "
    "reversed, for every format and every n in 1..8 (and whole payloads for the message-level formats), so the payload reaches int.from_bytes as "
    "(reversed,'big'); [FE-COMBINED] already_combined is True only where the format carries whole messages. After the funnel the code is literally "
    "the same function. [ENDIAN] _call_decode_function converts with 'big'. UNDECIDED: library text parsing on exotic tokens (strptime, "
    "int(x,16) on malformed input), equality of frame-wise and pre-assembled delivery (needs C04's reassembly)."
    ' Fifth round: [ENDIAN] is decided on the interpreted decode path: eight symbolic wire bytes handed to _decode last byte first must reach the generated decoder as the integer with wire byte j at bits 8j..8j+7, whatever conversion is used; the reading of int.from_bytes only confirms.'
    ' Eighth round: [FE-FUNNEL] a further public decode_* method that goes through _decode is no finding (its own parsing has no reference and is not judged); the inner stages may still be called only from _decode / _decode_fast_message.'
)
ASSUMPTIONS = ["CPython ast parser", "absint.py / bitprov.py transfer functions", "str.split / int(x,16) / bytes.fromhex semantics on well-formed tokens"]

FRONTS = ['decode_actisense_string', 'decode_yacht_devices_string', 'decode_basic_string', 'decode_tcp', 'decode_usb']

def run(chk, program, tier):
    for r, t in (('FE-FUNNEL', 'one shared decode path'), ('FE-ROLE', 'parameter roles'), ('FE-ORIENT', 'data reversed exactly once'), ('FE-COMBINED', 'reassembly bypass only for whole-message formats'),
                 ('ENDIAN', 'payload integer is little-endian over wire order'), ('ID-PARSE', 'identifier parse is the inverse of the layout (C05)'), ('ID-BUILD', 'identifier build/parse compose to identity (C05)'), ('STATE-DEPS', 'the shared decode path depends only on configuration, source map and reassembly buffers'),
                 ('RA-RESET', 'C04: restart resets the record'), ('RA-DONE', 'C04: completion / deletion'), ('RA-COUNT', 'C04: counting'), ('RA-ORDER', 'C04: order'), ('RA-TRUNC', 'C04: truncation'),
                 ('RA-KEY', 'C04: stream key'), ('RA-SEQ', 'C04: sequence guard'), ('RA-DUP', 'C04: duplicate guard'), ('RA-PRE', 'C04: stray later frame')):
        chk.rule(r, t)
    funnel(chk, program)
    hexid = A.AStr([('hexbytes', list(reversed([A.norm_byte(W.ID_BITS[8 * i: 8 * i + 8] + [0] * max(0, 8 * i + 8 - 29)) for i in range(4)])))])
    for n in range(1, 9):
        frame = W.frame_bytes(n)
        rev = list(reversed(frame.items))
        idb_big = list(reversed([A.norm_byte(W.ID_BITS[8 * i: 8 * i + 8] + [0] * max(0, 8 * i + 8 - 29)) for i in range(4)]))
        idb_little = list(reversed(idb_big))
        inputs = {}
        # EByte: type byte, id big endian, data, zero padding to 13
        inputs['decode_tcp'] = (A.ABytes([('c', 0x80 | n)] + idb_big + frame.items + [('c', 0)] * (8 - n)), ())
        # USB: aa 55 01 02 01 id(le) n data pad 00 csum
        inputs['decode_usb'] = (A.ABytes([('c', 0xaa), ('c', 0x55), ('c', 1), ('c', 2), ('c', 1)] + idb_little + [('c', n)] + frame.items + [('c', 0)] * (8 - n) + [('c', 0)]
                                         + [A.norm_byte([('csum', k) for k in range(8)])]), ())
        for marker in ('R', 'T'):
            pieces = [('lit', f"17:33:21.107 {marker} ")] + hexid.pieces
            for b in frame.items:
                pieces += [('lit', ' '), ('hexint', A.AInt(None, list(b[1])), 2)]
            inputs[f"decode_yacht_devices_string/{marker}"] = (A.AStr(pieces), ())
        for ts in ('2016-02-28T19:57:02.364Z', '2016-02-28-19:57:02.364'):
            pieces = [('lit', ts + ','), ('decint', A.sym_int('prio', 3)), ('lit', ','), ('decint', A.sym_int('pgn', 18)), ('lit', ','), ('decint', A.sym_int('src', 8)), ('lit', ','),
                      ('decint', A.sym_int('dst', 8)), ('lit', f",{n}")]
            for b in frame.items:
                pieces += [('lit', ','), ('hexint', A.AInt(None, list(b[1])), 2)]
            inputs[f"decode_basic_string/{ts[10]}"] = (A.AStr(pieces), ())
        # Actisense carries whole payloads: n bytes of payload
        hdr = A.AInt(None, [('prio', 0), ('prio', 1), ('prio', 2), 0] + [('dst', k) for k in range(8)] + [('src', k) for k in range(8)])
        def actisense_line(pgn_ai):
            return A.AStr([('lit', 'A173321.107 '), ('hexint', hdr, 5), ('lit', ' '), ('hexint', pgn_ai, 5), ('lit', ' '), ('hexbytes', list(frame.items))])
        inputs['decode_actisense_string'] = (actisense_line(A.sym_int('pgn', 18)), ())
        pgn_override = {}
        work = list(inputs.items())
        while work:
            name, (packet, extra) = work.pop(0)
            meth = name.split('/')[0]
            try:
                r = W.decode_with(program, meth, packet, extra)
            except A.Unknown as u:
                if name == 'decode_actisense_string':
                    # the front-end looks at the PGN itself (a test on the PDU format byte): once per kind of PGN, with that byte concrete -- an addressed
                    # one (PF 0xEA), a broadcast one (PF 0xF1) and an addressed one of data page 1 (PF 0xEF), every other bit symbolic
                    for pfv in (0xEA, 0xF1, 0xEF):
                        bits_ = [('pgn', k) if not 8 <= k < 16 else (pfv >> (k - 8)) & 1 for k in range(18)]
                        nm_ = f"decode_actisense_string/PF={pfv:#04x}"
                        pgn_override[nm_] = bits_
                        work.append((nm_, (actisense_line(A.AInt(None, bits_)), ())))
                    continue
                chk.unknown('FE-ROLE', f"{name}@n={n}", str(u), DEC, program.fn('decoder', f"NMEA2000Decoder.{meth}").lineno)
                continue
            a = r.decode_args
            line = program.fn('decoder', f"NMEA2000Decoder.{meth}").lineno
            if a is None:
                chk.violation('FE-FUNNEL', f"{name}::reaches-decode@n={n}", file=DEC, line=line, func=meth, expected='_decode called', found=r.warnings or 'returned early')
                continue
            if meth in ('decode_tcp', 'decode_usb', 'decode_yacht_devices_string'):
                W.judge_int(chk, r.header_arg, W.ID_BITS, 'FE-ROLE', f"{name}::identifier@n={n}", file=DEC, line=line, func=meth,
                          expected='_extract_header(id[0:29])', found=repr(r.header_arg))
                exp = {'pgn': [('H.pgn', k) for k in range(18)], 'priority': [('H.prio', k) for k in range(3)], 'source': [('H.src', k) for k in range(8)], 'destination': [('H.dst', k) for k in range(8)]}
            else:
                exp = {'pgn': pgn_override.get(name, [('pgn', k) for k in range(18)]), 'priority': [('prio', k) for k in range(3)], 'source': [('src', k) for k in range(8)], 'destination': [('dst', k) for k in range(8)]}
            got = {'pgn': a[0], 'priority': a[1], 'source': a[2], 'destination': a[3]}
            for role in exp:
                W.judge_int(chk, got[role], exp[role], 'FE-ROLE', f"{name}::{role}@n={n}", file=DEC, line=line, func=meth,
                          expected=B.show_vec(exp[role]), found=repr(got[role]), detail='positional parameter of _decode(pgn, priority, source, destination, timestamp, data, raw[, already_combined])')
            data = a[5] if len(a) > 5 else None
            if not W.followed(data) or (isinstance(data, A.ABytes) and any(x_[0] == 'u' for x_ in data.items)):
                chk.unknown('FE-ORIENT', f"{name}@n={n}", f"the data argument was not followed by the interpreter: {data!r}", DEC, line)
                continue
            chk.check(isinstance(data, A.ABytes) and data.items == rev, 'FE-ORIENT', f"{name}@n={n}", file=DEC, line=line, func=meth,
                      expected='frame data reversed exactly once', found=W.describe_items(data.items)[:3] if isinstance(data, A.ABytes) else repr(data))
            # already_combined
            ac = a[7] if len(a) > 7 else r.decode_kwargs.get('already_combined', False)
            if meth == 'decode_actisense_string':
                chk.check(ac is True, 'FE-COMBINED', f"{name}@n={n}", file=DEC, line=line, func=meth, expected=True, found=repr(ac), nontrivial=n == 1)
            elif meth == 'decode_basic_string':
                chk.check(ac is False, 'FE-COMBINED', f"{name}@n={n}", file=DEC, line=line, func=meth, expected="caller's flag (default False)", found=repr(ac), nontrivial=n == 1)
            else:
                chk.check(ac is False, 'FE-COMBINED', f"{name}@n={n}", file=DEC, line=line, func=meth, expected='default (frame-level format)', found=repr(ac), nontrivial=n == 1)
    # basic string with the caller's flag set
    pieces = [('lit', '2016-02-28-19:57:02.364,'), ('decint', A.sym_int('prio', 3)), ('lit', ','), ('decint', A.sym_int('pgn', 18)), ('lit', ','), ('decint', A.sym_int('src', 8)), ('lit', ','),
              ('decint', A.sym_int('dst', 8)), ('lit', ',20')]
    pl = W.frame_bytes(20)
    for b in pl.items:
        pieces += [('lit', ','), ('hexint', A.AInt(None, list(b[1])), 2)]
    try:
        r = W.decode_with(program, 'decode_basic_string', A.AStr(pieces), (True,))
        a = r.decode_args
        ac = a[7] if a and len(a) > 7 else (r.decode_kwargs or {}).get('already_combined')
        chk.check(ac is True and isinstance(a[5], A.ABytes) and a[5].items == list(reversed(pl.items)), 'FE-COMBINED', 'decode_basic_string::flag-passed-on', file=DEC, line=0,
                  expected='already_combined=True handed to _decode with the whole payload reversed', found=repr(ac))
    except A.Unknown as u:
        chk.unknown('FE-COMBINED', 'decode_basic_string(True)', str(u), DEC, 0)
    endian(chk, program)
    # the binary / Yacht Devices front-ends obtain PGN and addressing from _extract_header, the text formats carry them in clear:
    # both agree only if the parse is the inverse of the documented identifier layout (C05's per-bit obligations)
    from .c16 import _Sub
    from . import c05
    c05.run(_Sub(chk, {'ID-PARSE', 'ID-BUILD'}), program, tier)
    # the shared path keeps no memory of *how* earlier messages arrived (C16 STATE-DEPS): otherwise a frame-level and a message-level format disagree
    from .. import rules_iso
    rules_iso.state_deps(_Sub(chk, {'STATE-DEPS'}), program)
    # frame-by-frame delivery equals pre-assembled delivery only if reassembly is exact (C04's clauses)
    from .. import rules_reasm as RR
    RR.decide(chk, program, tier, ['RA-KEY', 'RA-SEQ', 'RA-DUP', 'RA-RESET', 'RA-PRE', 'RA-ORDER', 'RA-DONE', 'RA-COUNT', 'RA-TRUNC'])

def funnel(chk, program):
    m = program.mod('decoder')
    for meth in FRONTS:
        fn = program.fn('decoder', f"NMEA2000Decoder.{meth}")
        calls = [n for n in ast.walk(fn) if isinstance(n, ast.Call) and isinstance(n.func, ast.Attribute) and n.func.attr == '_decode']
        rets = [n for n in ast.walk(fn) if isinstance(n, ast.Return) and n.value is not None and not (isinstance(n.value, ast.Constant) and n.value.value is None)]
        okk = len(calls) == 1 and all(isinstance(r.value, ast.Call) and r.value is calls[0] for r in rets) and len(rets) == 1
        chk.check(okk, 'FE-FUNNEL', f"{meth}::single-exit-through-_decode", file=DEC, line=fn.lineno, func=meth, expected='exactly one `return self._decode(...)` and no other value returned',
                  found={'_decode_calls': len(calls), 'value_returns': len(rets)})
        other = [n for n in ast.walk(fn) if isinstance(n, ast.Call) and isinstance(n.func, ast.Attribute) and n.func.attr in ('_decode_fast_message', '_call_decode_function')]
        chk.check(not other, 'FE-FUNNEL', f"{meth}::no-bypass", file=DEC, line=fn.lineno, func=meth, expected='front-end does not call the inner stages directly', found=[ast.unparse(o.func) for o in other], nontrivial=False)
    allowed = {'_decode': set(f"NMEA2000Decoder.{x}" for x in FRONTS), '_decode_fast_message': {'NMEA2000Decoder._decode'}, '_call_decode_function': {'NMEA2000Decoder._decode', 'NMEA2000Decoder._decode_fast_message'}}
    from ..rules_client import _enclosing
    for mname, mod in program.modules.items():
        for n in ast.walk(mod.tree):
            if isinstance(n, ast.Call) and isinstance(n.func, ast.Attribute) and n.func.attr in allowed:
                q = _enclosing(n)
                ok = mname == 'decoder' and q in allowed[n.func.attr]
                if not ok and n.func.attr == '_decode' and mname == 'decoder' and q.startswith('NMEA2000Decoder.decode_') and q.count('.') == 1:
                    # one more front-end next to the five known ones: it goes through the shared path; what it does before (its own wire format) has no
                    # reference here and is not judged
                    chk.unit('front_end_without_reference', q)
                    continue
                chk.check(ok, 'FE-FUNNEL', f"{mname}.{q}->{n.func.attr}", file=mod.rel(), line=n.lineno, func=q, expected=f"called only from {sorted(allowed[n.func.attr])}", found=f"{mname}.{q}")

def endian_semantic(chk, program):
    """[ENDIAN] decided on the interpreted decode path: a frame whose eight wire bytes are symbols w0..w7 (handed to _decode last wire byte first, as
    every front-end does) must reach the generated decoder as the integer whose bits 8j..8j+7 are wire byte j.  -> True when decided"""
    from .. import rules_filter as F, absint as A, teval
    from ..model import AnalysisError
    fn = program.fn('decoder', 'NMEA2000Decoder._call_decode_function')
    try:
        consts = F.module_consts(program)
        sf, cf = F.facts_or_none(program)
        db = program.db
        d0 = next(d for d in db.defs if not d.group.complex and d.pgn != consts['ISO_CLAIM_PGN'] and len(d.group.defs) == 1)
        dp = F.DecodePath(program, F.runtime_attrs(program, sf, cf, consts, [], []), consts)
        wire = [A.sym_byte('w', j) for j in range(8)]
        r = dp.feed(d0.pgn, d0.id, src=7, data_items=list(reversed(wire)))
        da = r.get('decode_args')
        if r['status'] != 'returned' or not da or len(da) != 1:
            raise A.Unknown('the generated decoder was not reached with one argument')
        v = da[0]
        if not isinstance(v, A.AInt) or v.vec() is None:
            raise A.Unknown(f"the decoder's argument was not followed: {v!r}"[:120])
    except (A.Unknown, A.RaiseSignal, teval.EvalUnknown, KeyError, AttributeError, TypeError, AnalysisError, StopIteration) as u:
        chk.unit('endian_not_interpretable', f"{type(u).__name__}: {u}"[:160])
        return False
    want = [(('w', j), k) for j in range(8) for k in range(8)]
    got = A.B.trim(v.vec())
    okk = _same_bits(got, wire)
    chk.check(okk, 'ENDIAN', '_call_decode_function::payload-integer', file=DEC, line=fn.lineno, func='_call_decode_function',
              expected='the integer handed to the generated decoder has wire byte j at bits 8j..8j+7 (little-endian over wire order)', found='ok' if okk else A.B.show_vec(got)[:200])
    return True

def _same_bits(vec, wire):
    from .. import absint as A
    it = A.Interp()
    want = []
    for b in wire:
        x = it.byte_to_int(b)
        bv = A.B.trim(x.vec()) if isinstance(x, A.AInt) and x.vec() is not None else None
        if bv is None:
            return False
        want.extend(list(bv) + [0] * (8 - len(bv)))
    return list(vec) + [0] * (len(want) - len(vec)) == want

from ..rules_reasm import _ConfirmOnly as _ConfirmOnlyT

def endian(chk, program):
    if endian_semantic(chk, program):
        # decided on the interpreted path; the reading of the spelling below only confirms
        from ..rules_reasm import _ConfirmOnly
        chk = _ConfirmOnly(chk, {'ENDIAN'})
    fn = program.fn('decoder', 'NMEA2000Decoder._call_decode_function')
    fb = [n for n in ast.walk(fn) if isinstance(n, ast.Call) and isinstance(n.func, ast.Attribute) and n.func.attr == 'from_bytes']
    if not fb and not isinstance(chk, _ConfirmOnlyT):
        chk.unknown('ENDIAN', '_call_decode_function::one-conversion', 'not interpretable, and no int.from_bytes in _call_decode_function: the bytes become an integer some other way', DEC, fn.lineno)
        return
    chk.check(len(fb) == 1, 'ENDIAN', '_call_decode_function::one-conversion', file=DEC, line=fn.lineno, expected=1, found=len(fb), nontrivial=False)
    for c in fb:
        order = None
        if len(c.args) > 1 and isinstance(c.args[1], ast.Constant):
            order = c.args[1].value
        for k in c.keywords:
            if k.arg == 'byteorder' and isinstance(k.value, ast.Constant):
                order = k.value.value
        arg = c.args[0] if c.args else None
        params = [a.arg for a in fn.args.args]
        okk = order == 'big' and isinstance(arg, ast.Name) and arg.id in params
        chk.check(okk, 'ENDIAN', '_call_decode_function::(reversed,big)', file=DEC, line=c.lineno, func='_call_decode_function',
                  expected="int.from_bytes(<data parameter>, 'big') on wire-reversed bytes == little-endian over wire order", found={'order': order, 'arg': ast.unparse(arg) if arg is not None else None})
    # the fast path rebuilds a reversed payload as well: bytes([... frames[idx][::-1] ...])[::-1]
    ff = program.fn('decoder', 'NMEA2000Decoder._decode_fast_message')
    ex = sym.SymExec(ff)
    try:
        ex.run()
    except sym.Unsupported as u:
        ex.events = []
    calls = []
    for e in ex.events:
        for t in e[2:-1]:
            if isinstance(t, tuple):
                for s_ in sym.walk(t):
                    if s_[0] == 'call' and s_[1][0] == 'attr' and s_[1][2] == '_call_decode_function' and s_ not in calls:
                        calls.append(s_)
    ok = False
    found = None
    for c in calls:
        d = c[2][5] if len(c[2]) > 5 else None
        found = sym.show(d) if d else None
        ok = d is not None and _is_rev_of_sorted_concat(d)
    if ok:
        chk.ok('ENDIAN', '_decode_fast_message::reassembled-orientation', file=DEC, line=ff.lineno, func='_decode_fast_message',
               expected='reversed( concatenation, in sorted frame order, of each stored (reversed) frame re-reversed ) = whole payload reversed', found=found)
    else:
        # another spelling of the concatenation: decided by the interpreted histories (rules_reasm: the delivered bytes are payload[L-1..0])
        chk.unit('reassembled_orientation_shape', 'not recognised; decided by RA-ORDER / RA-TRUNC histories')

def _is_rev_of_sorted_concat(d):
    """accepts an optional [:n] truncation in wire order between the concatenation and the final reversal"""
    rev = ('slice', sym.NONE, sym.NONE, sym.C(-1))
    if not (d[0] == 'sub' and d[2] == rev):
        return False
    inner = d[1]
    if inner[0] == 'sub' and inner[2][0] == 'slice' and inner[2][1] == sym.NONE and inner[2][3] == sym.NONE:
        inner = inner[1]      # wire[:payload_length]
    if not (inner[0] == 'call' and inner[1] == ('name', 'bytes') and len(inner[2]) == 1):
        return False
    comp = inner[2][0]
    if comp[0] != 'listcomp' and comp[0] != 'generatorexp':
        return False
    gens = comp[2]
    if len(gens) != 2:
        return False
    (v1, it1, c1), (v2, it2, c2) = gens
    sorted_ok = it1[0] == 'call' and it1[1] == ('name', 'sorted') and it1[2] and it1[2][0][0] == 'attr' and it1[2][0][2] == 'frames'
    inner_ok = it2[0] == 'sub' and it2[2] == rev and it2[1][0] == 'sub' and it2[1][2] == v1 and it2[1][1][0] == 'attr' and it2[1][1][2] == 'frames'
    return sorted_ok and inner_ok and comp[1] == v2 and not c1 and not c2
