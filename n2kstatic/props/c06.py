"""C06 -- every gateway wire format round-trips and obeys its fixed framing."""
import ast

from .. import absint as A, bitprov as B, wire as W, rules_client as K
from ..model import AnalysisError

LEVEL = 'other'
ENC = 'nmea2000/encoder.py'
DEC = 'nmea2000/decoder.py'
EXPLANATION = (
    "Writers and readers of the four wire formats are interpreted over the byte/bit-provenance domain (absint.py, wire.py): one abstract CAN frame "
    "(identifier bits id[0:29], n data bytes with symbolic contents) is pushed through encode_ebyte / encode_usb / encode_yacht_devices / "
    "encode_actisense, and the abstract packet through the matching decode_* front-end, for every feasible data length n (database lengths of "
    "single-frame definitions and the fast-packet frame lengths of C03). [WF-LEN13] every EByte packet has exactly 13 bytes = the client's "
    "readexactly size. [WF-LEN20] every USB packet has exactly 20 bytes. [WF-LAYOUT] type nibble / length byte / identifier bytes / data bytes sit "
    "where the reader looks: the reader's _extract_header argument is id[0:29] bit for bit and the data it hands on is the frame's bytes (reversed, "
    "see C07). [WF-CSUM] the checksum is the last byte, computed by the function the reader uses (single definition), as a plain sum over "
    "positions 2..18 reduced & 0xff, so any single-byte change in positions 2..19 changes sum or stored byte; the reader's comparison dominates "
    "_decode (C20 CSUM-DOM). [WF-LINE] a Yacht Devices packet is hex tokens and spaces ended by one CR LF. [WF-ACT] the Actisense line is three "
    "tokens (header, PGN, payload hex) that the reader indexes after the timestamp token. SER-DELIVER / BUF-PROGRESS are decided by rules_serial.py (interpreted byte-class streams); WF-CSUM / SER-CONST on the interpreted checksum function, writer packet and reader acceptance. UNDECIDED: field-value level round trip (C02/C09), what a "
    "gateway does with the packets."
    ' Eighth round: [ID-USE] concrete addressings as in C05.'
)
ASSUMPTIONS = ["CPython ast parser", "absint.py / bitprov.py transfer functions", "the Yacht Devices and Actisense gateways prepend a time token (and a direction token) on receive",
               "database Length of single-frame definitions <= 8", "str.split / int(x,16) / bytes.fromhex semantics on well-formed hex tokens"]

def actisense_composition(chk, program, lengths, rule):
    """encode_actisense on a message with symbolic PGN / source / destination / priority and a symbolic payload, then the text (behind the
    timestamp token the gateway prepends) through decode_actisense_string: what reaches _decode must be those symbols, bit for bit"""
    for L in lengths:
        payload = W.frame_bytes(L, 'payload')
        try:
            res, rec = W.encode_with(program, 'encode_actisense', [payload], payload=payload)
        except (A.Unknown, A.RaiseSignal) as u:
            chk.unknown(rule, f"encode_actisense@L={L}", str(u), ENC, 0); return
        if not isinstance(res, A.AStr):
            chk.unknown(rule, f"encode_actisense@L={L}", 'result is not text', ENC, 0); return
        it = A.Interp()
        toks = it.tokens(res).items
        shape = [t.pieces[0][0] if len(t.pieces) == 1 else 'mixed' for t in toks]
        # three space-separated tokens of hex digits (a token may be several formatted pieces written side by side: its value is what the reader parses below)
        if any(p[0] == 'opaque' for t in toks for p in t.pieces):
            chk.unknown(rule, f"actisense::tokens@L={L}", 'a token of the line was not followed by the interpreter', ENC, 0); return
        hexish = lambda t: all(p[0] in ('hexint', 'hexbytes') or (p[0] == 'lit' and all(ch in '0123456789ABCDEFabcdef' for ch in p[1])) for p in t.pieces)
        chk.check(len(toks) == 3 and all(hexish(t) for t in toks), rule, f"actisense::tokens@L={L}", file=ENC, line=program.fn('encoder', 'NMEA2000Encoder.encode_actisense').lineno,
                  func='encode_actisense', expected=['header hex', 'PGN hex', 'payload hex'], found=shape)
        line = A.AStr([('lit', 'A000123.456 ')] + list(res.pieces))
        try:
            r = W.decode_with(program, 'decode_actisense_string', line)
        except A.Unknown as u:
            chk.unknown(rule, f"decode_actisense_string@L={L}", str(u), DEC, 0); return
        a = r.decode_args
        if a is None:
            chk.violation(rule, f"actisense::accepted@L={L}", file=DEC, line=0, expected='reader reaches _decode', found=r.warnings)
            continue
        exp = {'pgn': [('pgn', k) for k in range(18)], 'priority': [('prio', k) for k in range(3)], 'source': [('src', k) for k in range(8)], 'destination': [('dst', k) for k in range(8)]}
        got = {'pgn': a[0], 'priority': a[1], 'source': a[2], 'destination': a[3]}
        for role in exp:
            chk.check(W.int_matches(got[role], exp[role]), rule, f"actisense::{role}@L={L}", file=DEC, line=0, expected=B.show_vec(exp[role]), found=repr(got[role]))
        data = a[5]
        chk.check(isinstance(data, A.ABytes) and data.items == list(reversed(payload.items)), rule, f"actisense::payload@L={L}", file=DEC, line=0,
                  expected='payload bytes (reversed for the shared decode path)', found=f"{len(data.items) if isinstance(data, A.ABytes) else data!r} bytes")

def feasible_lengths(program):
    db = program.db
    out = {}
    for d in db.defs:
        if d.type == 'Single' and d.encodable() and d.length is not None:
            out.setdefault(d.length, f"PGN {d.pgn} {d.id} (Length {d.length})")
    for n in range(2, 9):
        out.setdefault(n, f"fast-packet frame of {n} bytes")
    return dict(sorted(out.items()))

def id_bytes(order):
    items = [A.norm_byte(W.ID_BITS[8 * i: 8 * i + 8] + [0] * max(0, 8 * i + 8 - 29)) for i in range(4)]
    return list(reversed(items)) if order == 'big' else items

def run(chk, program, tier):
    for r, t in (('WF-LEN13', 'EByte packets are 13 bytes'), ('WF-LEN20', 'USB packets are 20 bytes'), ('WF-LAYOUT', 'writer and reader agree on positions'),
                 ('WF-CSUM', 'checksum position, coverage, reduction'), ('WF-LINE', 'Yacht Devices line shape'), ('WF-ACT', 'Actisense token layout'), ('ID-USE', 'writers build the identifier of the message they write'), ('FP-LEN', 'fast-packet frames have 1..8 bytes'), ('FP-COUNT', 'frames carry the payload once, in order'), ('FP-HDR', 'frame header bytes'), ('FP-SEQ', 'sequence counter'), ('SER-DELIVER', 'serial receive path hands every complete 20-byte window to the decoder'),
                 ('BUF-PROGRESS', 'serial receive path removes exactly the processed window'), ('SER-CONST', 'serial marker / length constants agree with the encoder')):
        chk.rule(r, t)
    # the identifier each writer puts on the wire is that of the message being written (C05 ID-USE), and build / parse are inverse (C05 ID-PARSE / ID-BUILD)
    from . import c05
    from .c16 import _Sub as _Sub0
    chk.rule('ID-PARSE', 'parse(build(x)) = x per bit (C05)'); chk.rule('ID-BUILD', 'build(parse(id)) = id (C05)')
    c05.id_use(chk, program)
    # a message sent twice over one stream is received twice: the reassembly record does not outlive its message (C03 / C04 clauses)
    from .. import rules_reasm as RR_
    chk.rule('RA-DONE', 'the reassembly record is removed on completion (C04)'); chk.rule('RA-RESET', 'a fresh sequence counter restarts the record completely (C04)')
    RR_.decide(chk, program, tier, ['RA-DONE', 'RA-RESET'])
    c05.header_roundtrip(_Sub0(chk, {'ID-PARSE', 'ID-BUILD'}), program, tier)
    feas = feasible_lengths(program)
    chk.unit('feasible_data_lengths', feas)
    bad13 = None
    exact = K.impls(program, '_receive_impl')
    read_n = None
    partial = None
    for q in exact:
        g = K.cfg_of(program, q)
        feeds_tcp = any(True for _ in K.nodes_calling(g, lambda c: isinstance(c.func, ast.Attribute) and c.func.attr == 'decode_tcp'))
        for nid, c, meth in K.reader_reads(g):
            if meth == 'readexactly':
                read_n = K.const_int_in(program, 'ioclient', c.args[0])
            elif meth == 'read' and feeds_tcp:
                partial = c
    if read_n is None and partial is not None:
        # a witness: the client that hands its bytes to decode_tcp takes them with read(n), which returns as soon as anything has arrived
        chk.violation('WF-LEN13', 'client::readexactly', file='nmea2000/ioclient.py', line=partial.lineno, expected='the EByte client reads exactly 13 bytes per packet',
                      found=f"read({ast.unparse(partial.args[0]) if partial.args else ''})", detail='read(n) may return fewer than n bytes when a packet is split across TCP segments: a short packet is decoded and every later window is shifted')
    elif read_n is None:
        # no `readexactly(<integer literal>)` in any _receive_impl: the framing constant is spelt or placed differently; nothing was read
        chk.unknown('WF-LEN13', 'client::readexactly', 'no readexactly(<literal>) found in a _receive_impl: how the EByte client frames the stream was not read', 'nmea2000/ioclient.py', 0)
    else:
      chk.check(read_n == 13, 'WF-LEN13', 'client::readexactly', file='nmea2000/ioclient.py', line=0, expected='the EByte client reads exactly 13 bytes per packet', found=read_n,
              detail='the receive path re-frames the stream with this constant; it must equal the packet length the encoder produces')
    for n, example in feas.items():
        frame = W.frame_bytes(n)
        rev = list(reversed(frame.items))
        # ---------------- EByte
        try:
            res, rec = W.encode_with(program, 'encode_ebyte', [frame])
        except (A.Unknown, A.RaiseSignal) as u:
            chk.unknown('WF-LEN13', f"encode_ebyte@n={n}", str(u), ENC, 0); return
        pk = res.items[0]
        chk.check(len(pk) == 13, 'WF-LEN13', f"encode_ebyte@n={n}", file=ENC, line=program.fn('encoder', 'NMEA2000Encoder.encode_ebyte').lineno, func='encode_ebyte',
                  expected=13, found=len(pk), detail=f"data length {n} is feasible: {example}; the client cuts the stream every {read_n} bytes, a shorter packet shifts every following packet")
        t0 = pk.items[0]
        chk.check(t0[0] == 'c' and (t0[1] & 0x0F) == n, 'WF-LAYOUT', f"ebyte::type-nibble@n={n}", file=ENC, line=0, expected=f"low nibble {n}", found=str(t0))
        chk.check(pk.items[1:5] == id_bytes('big'), 'WF-LAYOUT', f"ebyte::identifier@n={n}", file=ENC, line=0, expected='id bytes big-endian at [1:5]', found=W.describe_items(pk.items[1:5]))
        chk.check(pk.items[5:5 + n] == frame.items, 'WF-LAYOUT', f"ebyte::data@n={n}", file=ENC, line=0, expected='data at [5:5+n]', found=W.describe_items(pk.items[5:5 + n])[:3])
        chk.check(all(x == ('c', 0) for x in pk.items[5 + n:]), 'WF-LAYOUT', f"ebyte::padding@n={n}", file=ENC, line=0, expected='zero padding', found=W.describe_items(pk.items[5 + n:]), nontrivial=False)
        try:
            r = W.decode_with(program, 'decode_tcp', pk)
        except A.Unknown as u:
            chk.unknown('WF-LAYOUT', f"decode_tcp@n={n}", str(u), DEC, 0); return
        _reader(chk, 'ebyte', n, r, rev)
        # ---------------- USB
        try:
            res, rec = W.encode_with(program, 'encode_usb', [frame])
        except (A.Unknown, A.RaiseSignal) as u:
            chk.unknown('WF-LEN20', f"encode_usb@n={n}", str(u), ENC, 0); return
        pk = res.items[0]
        chk.check(len(pk) == 20, 'WF-LEN20', f"encode_usb@n={n}", file=ENC, line=program.fn('encoder', 'NMEA2000Encoder.encode_usb').lineno, func='encode_usb', expected=20, found=len(pk), detail=example)
        if len(pk) == 20:
            chk.check(pk.items[0:2] == [('c', 0xaa), ('c', 0x55)], 'WF-LAYOUT', f"usb::marker@n={n}", file=ENC, line=0, expected='aa 55', found=W.describe_items(pk.items[0:2]), nontrivial=False)
            chk.check(pk.items[5:9] == id_bytes('little'), 'WF-LAYOUT', f"usb::identifier@n={n}", file=ENC, line=0, expected='id bytes little-endian at [5:9]', found=W.describe_items(pk.items[5:9]))
            chk.check(pk.items[9] == ('c', n), 'WF-LAYOUT', f"usb::length-byte@n={n}", file=ENC, line=0, expected=n, found=str(pk.items[9]))
            chk.check(pk.items[10:10 + n] == frame.items and all(x == ('c', 0) for x in pk.items[10 + n:19]), 'WF-LAYOUT', f"usb::data@n={n}", file=ENC, line=0,
                      expected='data at [10:10+n], zero padded to 8, reserved 0', found=W.describe_items(pk.items[10:19])[:4])
            cs = W.checksum_summary(program)
            last_is_cs = pk.items[19] == A.norm_byte([('csum', k) for k in range(8)])
            arg = rec.checksum_args[0] if rec.checksum_args else None
            plain, plain_found = W.checksum_is_plain_sum_2_19(program)
            if plain is None:
                chk.unknown('WF-CSUM', f"usb::checksum@n={n}", f"calculate_canbus_checksum neither interpretable nor of the recognised shape: {plain_found}", 'nmea2000/utils.py', cs['line'])
            else:
                ok_cs = last_is_cs and isinstance(arg, A.ABytes) and arg.items == pk.items[:19] and plain
                chk.check(ok_cs, 'WF-CSUM', f"usb::checksum@n={n}", file='nmea2000/utils.py', line=cs['line'], func='calculate_canbus_checksum',
                          expected={'position': 19, 'over': '(sum of bytes 2..18) mod 256 of the 19 preceding bytes'},
                          found={'last_byte_is_checksum': last_is_cs, 'function': plain_found, 'argument_len': len(arg) if isinstance(arg, A.ABytes) else None})
            try:
                r = W.decode_with(program, 'decode_usb', pk)
            except A.Unknown as u:
                chk.unknown('WF-LAYOUT', f"decode_usb@n={n}", str(u), DEC, 0); return
            chk.check(len(r.checksum_args) == 1 and isinstance(r.checksum_args[0], A.ABytes) and r.checksum_args[0].items == pk.items, 'WF-CSUM', f"usb::reader-recomputes@n={n}",
                      file=DEC, line=0, expected='reader applies the same function to the packet', found=len(r.checksum_args))
            _reader(chk, 'usb', n, r, rev)
        # ---------------- Yacht Devices
        if n >= 1:
            try:
                res, rec = W.encode_with(program, 'encode_yacht_devices', [frame])
            except (A.Unknown, A.RaiseSignal) as u:
                chk.unknown('WF-LINE', f"encode_yacht_devices@n={n}", str(u), ENC, 0); return
            line = res.items[0]
            if not isinstance(line, A.AStr):
                chk.unknown('WF-LINE', f"encode_yacht_devices@n={n}", 'result is not text', ENC, 0); return
            lits = ''.join(p[1] for p in line.pieces if p[0] == 'lit')
            last = line.pieces[-1]
            ok_line = last[0] == 'lit' and last[1].endswith('\r\n') and lits.count('\r') == 1 and lits.count('\n') == 1 and \
                all(ch in '0123456789ABCDEF \r\n' for ch in lits) and all(p[0] in ('lit', 'hexint', 'hexbytes') for p in line.pieces)
            chk.check(ok_line, 'WF-LINE', f"yacht_devices::line@n={n}", file=ENC, line=program.fn('encoder', 'NMEA2000Encoder.encode_yacht_devices').lineno,
                      func='encode_yacht_devices', expected='hex tokens and single spaces, terminated by exactly one CR LF', found=repr(lits))
            # every number is written with an even, fixed number of hex digits (whole bytes): 2 per data byte, or several bytes at once (the identifier as 8)
            widths_ok = all((p[0] != 'hexint') or (p[2] >= 2 and p[2] % 2 == 0 and (p[1].vec() is None or len(A.B.trim(p[1].vec())) <= 4 * p[2])) for p in line.pieces)
            chk.check(widths_ok, 'WF-LINE', f"yacht_devices::byte-width@n={n}", file=ENC, line=0, expected='two hex digits per byte', found=[p[2] for p in line.pieces if p[0] == 'hexint'], nontrivial=False)
            body = A.AStr([('lit', '12:00:00.000 R ')] + list(line.pieces))
            it = A.Interp()
            stripped = it.call(ast.parse('x.strip()').body[0].value, {'x': body})
            try:
                r = W.decode_with(program, 'decode_yacht_devices_string', stripped)
            except A.Unknown as u:
                chk.unknown('WF-LAYOUT', f"decode_yacht_devices_string@n={n}", str(u), DEC, 0); return
            _reader(chk, 'yacht_devices', n, r, rev)
    # ---------------- Actisense (whole payloads)
    actisense_composition(chk, program, range(1, 224) if tier == 'thorough' else (1, 3, 8, 9, 30, 223), 'WF-ACT')
    chk.floor('lengths', len(feas), 7)
    # the frames the fast-packet segmenter hands to the writers (C03 FP-LEN / FP-COUNT / FP-HDR on a reduced sweep: lengths 0..30 and the 7-multiples)
    from . import c03
    c03.segmenter_sweep(chk, program, sorted(set(list(range(0, 31)) + [34, 35, 41, 42, 62, 63, 216, 217, 222, 223])), (0, 5))
    # the receive paths that re-frame the byte stream: serial windows (marker, length, every complete window decoded, exact consumption)
    from .c16 import _Sub
    from .. import rules_serial as RS
    r = RS.decide(chk, program, tier, ['SER-DELIVER', 'BUF-PROGRESS'])
    P_, marker_ = (r[1], r[2]) if r else (20, b'\xaa\x55')
    K.ser_const(_Sub(chk, {'SER-CONST'}), program, P_, marker_)

def _reader(chk, fmt, n, r, rev):
    a = r.decode_args
    if a is None:
        chk.violation('WF-LAYOUT', f"{fmt}::accepted@n={n}", file=DEC, line=0, expected='the reader accepts the writer\'s packet and reaches _decode', found=r.warnings or 'returned early')
        return
    W.judge_int(chk, r.header_arg, W.ID_BITS, 'WF-LAYOUT', f"{fmt}::reader-identifier@n={n}", file=DEC, line=0,
              expected='_extract_header receives id[0:29] bit for bit', found=repr(r.header_arg))
    data = a[5] if len(a) > 5 else None
    chk.check(isinstance(data, A.ABytes) and data.items == rev, 'WF-LAYOUT', f"{fmt}::reader-data@n={n}", file=DEC, line=0,
              expected=f"the {n} data bytes of the frame (reversed)", found=W.describe_items(data.items)[:4] if isinstance(data, A.ABytes) else repr(data))
