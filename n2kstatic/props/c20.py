"""C20 -- serial (USB) stream resynchronises after noise with bounded buffering."""
from .. import rules_client as K

LEVEL = 'other'
EXPLANATION = (
    "[BUF-BOUND] a three-premise argument checked on the CFG of the buffering _receive_impl (discovered by its buffer.extend call), R = read size, "
    "P = packet length: (a) every path from the marker-not-found edge to the exit passes a statement that leaves at most a constant K1 bytes "
    "(recognised: clear(), del buf[:-k], buf = buf[-k:], del buf[:len(buf)-keep] with keep <= constant); (b) the marker-found-but-incomplete exit is "
    "guarded by len(buf) < start + P; (c) [BUF-PROGRESS] no path returns to the loop head without a statement that removes the buffer through "
    "start + P. Hence len(buf) <= K1 + 2R + P at every exit. [CSUM-DOM] in decode_usb the `checksum == stored byte` edge dominates _decode. "
    "[CSUM-COVER] the checksum function sums exactly positions 2..18 and reduces & 0xff. [SER-CONST] marker bytes and packet length agree among the client, decode_usb and encode_usb. Since the third round the verdicts of BUF-BOUND / BUF-PROGRESS / SER-DELIVER / SCAN-PROGRESS come from rules_serial.py: WaveShareNmea2000Gateway._receive_impl is interpreted (absint.py) with one persistent client object on streams over three byte classes (AA, 55, a byte that is neither), cut into reads in many ways, the packet decoder replaced by an oracle that accepts exactly the stream's packets and otherwise returns None or raises; marker-free noise must cost nothing, marker-bearing noise at most the next packet, the held-back bytes stay below one read plus two packets, every call returns. CSUM-DOM / CSUM-COVER / SER-CONST are decided on decode_usb and calculate_canbus_checksum interpreted (linear-sum domain; the one undecidable comparison answered both ways). The CFG rules run as confirmation. UNDECIDED: 'at most the first following "
    "packet is lost', no loss under marker-free noise (needs stream exploration)."
    " Seventh round: [CSUM-DOM] decode_usb is interpreted twice on one decoder object built by the interpreted constructor, for each answer of the checksum comparison: what the first packet leaves behind (a 'warned already' set) must not let the second one through."
    ' Eighth round: the client stand-in of the serial streams carries every attribute the constructor binds to a value the interpreter can evaluate (dictionaries of counters, optional arguments at their defaults).'
)
ASSUMPTIONS = ["CPython ast parser", "bytearray.find returns the first occurrence or -1", "StreamReader.read(n) returns at most n bytes", "cfg.py exception-edge model"]

def run(chk, program, tier):
    for r, t in (('BUF-BOUND', 'three-premise buffer bound'), ('BUF-PROGRESS', 'every non-exiting iteration consumes a packet'), ('SER-DELIVER', 'every complete window behind a marker reaches the decoder'), ('SCAN-PROGRESS', 'the scan loop cannot spin'),
                 ('CSUM-DOM', 'checksum comparison dominates decoding'), ('CSUM-COVER', 'checksum covers positions 2..18'), ('SER-CONST', 'marker / length constants agree')):
        chk.rule(r, t)
    from .. import rules_serial as RS
    r = RS.decide(chk, program, tier, ['BUF-BOUND', 'BUF-PROGRESS', 'SER-DELIVER', 'SCAN-PROGRESS'])
    # marker and packet length: the protocol's (AA 55, 20 bytes -- what the explored streams are made of) unless the structural reading names the client's own
    P, marker = (r[1], r[2]) if r else (20, b'\xaa\x55')
    K.ser_const(chk, program, P, marker)
    K.csum_dom(chk, program)
    from .. import wire
    ok, found = wire.checksum_is_plain_sum_2_19(program)
    line = program.fn('utils', 'calculate_canbus_checksum').lineno
    if ok is None:
        chk.unknown('CSUM-COVER', 'calculate_canbus_checksum', f"neither interpretable as a sum of bytes nor of the recognised shape: {found}", 'nmea2000/utils.py', line)
    else:
        chk.check(ok, 'CSUM-COVER', 'calculate_canbus_checksum', file='nmea2000/utils.py', line=line, func='calculate_canbus_checksum',
                  expected='(sum of packet bytes 2..18) mod 256: every byte between the marker and the checksum byte is covered, each with weight 1',
                  found=found, detail='' if ok else 'a packet corrupted in an uncovered position still passes the comparison and is delivered')
