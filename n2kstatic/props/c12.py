"""C12 -- gateway clients deliver every decodable frame once, in order, for any chunking."""
from .. import rules_client as K

LEVEL = 'other'
EXPLANATION = (
    "[RX-CONTAIN] in every _receive_impl (3 implementations via the class hierarchy) each self.decoder.decode_* call's exception edge ends in an "
    "`except Exception` handler that does not re-raise, so a bad packet cannot end the receive loop. [RX-ONCE] queue.put exists only in "
    "_receive_impl, puts the decode result, and a second put is reachable only through another decode call. [Q-FIFO] the queue is an unbounded "
    "asyncio.Queue created once; one consumer task started once in __init__; queue.get only there; the callback is awaited inline (no task per "
    "message) on the message just taken, inside try/except Exception (not BaseException/CancelledError) without re-raise; task_done on every path. "
    "[RX-RAISE] a connection-ending raise in a _receive_impl depends only on emptiness of the raw read (or the literal busy banner), never on content. The callback's except clause cannot fail itself (logging of plain names only). [BUF-PROGRESS] each scan iteration removes the buffer exactly through start + packet length (no packet seen twice). [RX-FRAME] readexactly(13) for the fixed EByte framing, line reads for text formats. [SER-STATE] the serial path writes only its buffer, "
    "appends before scanning and leaves the scan loop only on need-more-data conditions, so delivery depends on the concatenation of reads, not on "
    "their boundaries. The serial clauses (BUF-PROGRESS, SER-DELIVER, SER-STATE) are decided by rules_serial.py (interpreted byte-class streams under many cuts into reads: same deliveries for every cut); the CFG rules confirm. UNDECIDED: equality with the decoder's output on arbitrary streams (needs exploration), slow callbacks."
    ' Fifth round: a path through a fault handler is a witness only when no undecided test on it reads something of the client that may stand for the connection state; start / get / put sites that moved into helpers, an attempt or a callback inside a `with` over an unknown context manager, and reads made through helpers are undecided; a helper coroutine runs under the lock when every call (or hand-over as a value) of it does.'
    ' Eighth round: [Q-FIFO] the callback may be awaited under asyncio.wait_for; several call sites are accepted when no path passes two of them between two queue.get; the handler may test with isinstance, count, and assign plain values.'
)
ASSUMPTIONS = ["CPython ast parser", "asyncio.Queue is FIFO", "StreamReader.readexactly/readline reassemble across transport chunks", "cfg.py exception-edge model"]

def run(chk, program, tier):
    for r, t in (('RX-CONTAIN', 'decode errors contained per packet'), ('RX-ONCE', 'one put per decoded message'), ('Q-FIFO', 'single FIFO consumer, inline shielded callback'),
                 ('RX-FRAME', 'framing constants'), ('RX-RAISE', 'only end of stream ends the connection'), ('BUF-PROGRESS', 'each processed packet is removed exactly once'), ('SER-DELIVER', 'every complete window behind a marker reaches the decoder'), ('SER-STATE', 'serial path state = buffer only')):
        chk.rule(r, t)
    K.rx_rules(chk, program)
    K.q_fifo(chk, program)
    K.rx_frame(chk, program)
    from .. import rules_serial as RS
    from ..rules_reasm import _ConfirmOnly
    RS.decide(chk, program, tier, ['BUF-PROGRESS', 'SER-DELIVER', 'SER-STATE'])
    co = _ConfirmOnly(chk, {'SER-STATE'})
    try:
        K.ser_state(co, program)
    except Exception as e:
        co.unrecognised.append(str(e))
    chk.unit('ser_state_shapes_not_recognised', co.unrecognised[:4])
    K.rx_raise(chk, program)
    K.handler_cannot_raise(chk, program)
    # consumption of the serial buffer: same clause as C20 BUF-PROGRESS (every iteration removes exactly through start + P)
    from .c16 import _Sub
