"""C04 -- fast-packet reassembly is exact under interleaving, reordering, duplication and loss."""
from .. import rules_reasm as RR

LEVEL = 'other'
EXPLANATION = (
    "Necessary conditions of the reassembly mechanism, decided on the statement CFG and the sym.py terms of NMEA2000Decoder._decode_fast_message. "
    "[RA-KEY] every access to the buffer map uses one key that depends on all of pgn, src, dest with a non-numeric separator. [RA-SEQ]/[RA-DUP] every "
    "path to the frame store on which the frame is not a restarting first frame passes the guard rejecting a different sequence counter / an already "
    "stored frame counter. [RA-RESET] on the restart path every attribute that fast_pgn_metadata.__init__ creates is re-initialised before the store. "
    "[RA-PRE] a non-first frame with nothing in progress returns before any write; all record writes lie behind that test. [RA-ORDER] the concatenation "
    "iterates sorted(frames). [RA-DONE] completion is `stored >= announced`, nothing is decoded while incomplete, the record is deleted on every normal "
    "path from completion to the return. [RA-COUNT] the completion counter is increased by the length of exactly the bytes stored for the frame. [RA-TRUNC] the payload handed to the decoder is cut to the announced length. [RA-SAFE] every indexed read that "
    "can fail on a truncated frame precedes all writes to the record on its path. Since the third round of independent changes the verdict of every RA-* rule comes from rules_reasm.py: bounded families of frame histories (every permutation of later frames, duplicates before and after delivery, loss then next message, first frame lost, foreign-counter frames, two streams differing in one key component or only in how the key's numbers split, packed-key collisions, follow-up with the same counter, truncated frames) with symbolic payload and padding bytes are fed to _decode_fast_message interpreted by absint.py with a persistent buffer map, and the deliveries are compared with what the property text demands; the structural rules above are run as confirmation (they give the all-histories argument when they recognise the spelling) and never raise an alarm themselves. UNDECIDED: correctness over all interleavings, 'returned exactly when "
    "the last missing frame arrives', recovery after loss -- history quantifiers that belong to model checking."
    ' Seventh round: [DEC-REACH] the addressing the inner stage (and with it the reassembly key) receives is the addressing of the frame, decided on the interpreted decode path for 59904, 126208 and 130306 sent from 7 to 5.'
)
ASSUMPTIONS = ["CPython ast parser", "cfg.py (if/elif/else, returns)", "sym.py def-use substitution", "frames arrive byte-reversed (C07)"]

def run(chk, program, tier):
    for r, t in (('RA-KEY', 'stream key'), ('RA-SEQ', 'other-sequence frames rejected'), ('RA-DUP', 'duplicates rejected'), ('RA-RESET', 'restart resets the record'),
                 ('RA-PRE', 'later frame without first frame dropped before writes'), ('RA-ORDER', 'sorted concatenation'), ('RA-DONE', 'completion and deletion'),
                 ('RA-TRUNC', 'payload bounded by announced length'), ('RA-COUNT', 'completion counts exactly the stored payload bytes'), ('RA-SAFE', 'raise before write')):
        chk.rule(r, t)
    RR.decide(chk, program, tier, ['RA-KEY', 'RA-SEQ', 'RA-DUP', 'RA-RESET', 'RA-PRE', 'RA-ORDER', 'RA-DONE', 'RA-TRUNC', 'RA-COUNT', 'RA-SAFE'])
    # the stream key is only as good as the addressing _decode hands to the reassembly: PGN, source and destination must arrive unchanged
    chk.rule('DEC-REACH', 'every well-formed frame reaches the inner stage addressed as it arrived')
    from .. import rules_filter as _RF
    _RF.decode_reach(chk, program)
