"""C02 -- decoding then re-encoding a payload reproduces it on all defined bits."""
from .. import rules_gen as R, rules_enc as E, rules_help as H

LEVEL = 'other'
EXPLANATION = (
    "Writer/reader table agreement for the generated code, decided statically. [GEN-ENC] for each of the encodable definitions the "
    "encoder's table (field id fetched, producer prescribed by the field type with BitLength/Signed/Resolution/lookup name, "
    "mask 2^BitLength-1, shift BitOffset, to_bytes(Length,'little')) equals the database and therefore the decoder's table (C01 "
    "GEN-DEC); non-encodable encoders raise before producing bytes. [SENT-AGREE] the not-available constant in decode_number's "
    "residual equals what encode_number / encode_time return for None at every (BitLength, Signed) of an encodable field. "
    "[SIGN-AGREE] the encoder's two's-complement wrap is the inverse of the decoder's sign extension. [ROUND] every scaled-float "
    "to tick conversion goes through round (or divides by an integer resolution). [ABSENT-ENC] each producer has a non-raising path "
    "for an absent value. [LOOKUP-INV] lookup_dict_encode_* is the inverse of master_dict[*] where names are unique. "
    "This decides the structural necessary conditions only; The encode_number residual is evaluated as an exact piecewise-affine function of the tick count (piece.py): interval returned, raise type outside it, wrap constant for negative values -- any spelling of the range test and of the two's-complement step. UNDECIDED: exactness of round(n*r/r)==n for every n < 2^48 and every "
    "resolution, the double-rounding clause for 64-bit fields (numeric facts, not shape facts)."
    ' GEN-ENC / ENC-MASK: when the returned bytes are not <int>.to_bytes(..) of OR-ed masked pieces (sums, modulo, struct.pack, joined parts), the return term is read as a vector of bits, each a constant 0 or bit k of one producer; maximal runs give (producer, width, position) rows that are checked like the OR-pieces.'
    ' Fifth round: [ENC-STATE] every use of self.<attr> in the encoder is classified (read / write / not visible): bound in __init__ and only read is configuration, written and read after construction is state between messages (violation), anything else is undecided. When the encode_number residual is not of the piecewise form it is decided on points (tick counts around every boundary, None): ENC-RANGE / SENT-AGREE / SIGN-AGREE then rest on sampled points. An encode_time call site that was not read and a payload assembled by a loop the guard extractor only approximates give no verdict.'
    ' Seventh round: the payload of a fast PGN only reaches the wire through the segmenter, so the [FP-COUNT] sweep of C03 (frames carry payload[0..L-1] once, in order) is run here too on the lengths around the frame capacities.'
    ' Eighth round: an encoder that returns bytes for a definition with a field type the reference has no writer for gives no verdict (was: violation); the segmenter sweep refuses when the constructor keeps the sequence counter somewhere the sweep cannot set.'
)
ASSUMPTIONS = ["CPython ast parser", "canboat.json is the oracle", "sym.py partial evaluation (constant folding, helper inlining)",
               "Python int/round semantics: int() truncates, round() rounds to nearest"]

def run(chk, program, tier):
    chk.rule('ENC-STATE', 'encoder keeps no state between messages besides the fast-packet sequence counter')
    chk.rule('GEN-ENC', 'generated encoder table == database definition')
    chk.rule('ENC-MASK', 'mask = 2^BitLength-1 and shift = BitOffset per OR-ed piece')
    chk.rule('SENT-AGREE', 'decoder and encoders agree on the not-available code')
    chk.rule('SIGN-AGREE', 'encoder wrap is the inverse of decoder sign extension')
    chk.rule('ROUND', 'scaled value -> tick count passes through round')
    chk.rule('ABSENT-ENC', 'absent value encodes to a pattern, not an exception')
    chk.rule('ENC-RANGE', 'encode_number accepts exactly the raw values the decoder can produce (top code reserved)')
    chk.rule('ENC-NA', 'None encodes to the not-available code')
    chk.rule('LOOKUP-INV', 'lookup_dict_encode_X inverts master_dict[X]')
    sites = E.gen_enc(chk, program)
    E.round_rule(chk, program, sites)
    E.absent_enc(chk, program, sites)
    H.sent_sign_agree(chk, program, sites)
    H.enc_range(chk, program)
    E.lookup_inv(chk, program)
    E.enc_state(chk, program)
    # the payload of a fast PGN reaches the wire in frames: the frames together carry it once, in order (C03's sweep on the lengths around the frame capacities)
    chk.rule('FP-COUNT', 'the frames of a fast message carry the payload once, in order')
    chk.rule('FP-LEN', 'fast-packet frames have 1..8 bytes'); chk.rule('FP-HDR', 'frame header bytes'); chk.rule('FP-SEQ', 'sequence counter')
    from . import c03
    c03.segmenter_sweep(chk, program, sorted(set(list(range(0, 16)) + [20, 21, 27, 28, 34, 35, 216, 217, 222, 223])), (0,))
    chk.floor('encodable_definitions', chk.units.get('encodable_definitions', 0), 255)
    chk.floor('encoder_rows', chk.units.get('encoder_rows', 0), 1700)
