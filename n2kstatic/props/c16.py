"""C16 -- decoder instances are isolated and unharmed by bad input."""
from .. import rules_iso as I, rules_decoder as D, rules_gen as R

LEVEL = 'other'
EXPLANATION = (
    "Ownership / aliasing, decided on the syntax tree of the whole package. [NO-CLASS-STATE] no class-level mutable attribute on the decoder, encoder, "
    "reassembly record or message classes; the message's field list comes from default_factory. [DEFAULTS-RO] every parameter whose default is a mutable "
    "literal (decoder and the four public gateway classes) is read-only: never the receiver of a mutating method, never subscript-assigned or "
    "augmented, never stored un-copied, transitively through the resolved callees it is passed to (super().__init__, NMEA2000Decoder(...), "
    "split_pgn_list). [NO-GLOBAL-WRITE] no function of the package (1359 generated + hand-written) declares global/nonlocal or mutates a module-level "
    "name (lookup tables included). [INSTANCE-STATE] no decoder/encoder attribute is bound, after construction, to a module-level or class-level mutable object (originally: later stores are only the inventoried ones -- see the eighth-round note below). "
    "[STATE-DEPS] the guards of every return/store in _decode, _decode_fast_message and _call_decode_function read only configuration attributes (never mutated outside __init__), the source map and the reassembly buffers -- bookkeeping such as the logged-PGN set decides nothing. [FRESH-MSG] every leaf decoder constructs its message inside the call and returns that object (C01 GEN-DEC return obligations). [RA-RESET]/[RA-PRE]/[RA-DONE]/[RA-KEY] (C04's clauses that make a complete message with a fresh counter independent of what was received before). [RA-SAFE] in the "
    "reassembly step every index that can fail on a truncated frame precedes all writes to the record. UNDECIDED: 'identically after any history' as "
    "such (needs C04/C10/C11's mechanisms composed)."
    " Fifth round: [STATE-DEPS] configuration is what __init__ derives from its parameters; attributes bound to something fresh are the decoder's own state, of which only the source map and the reassembly buffers may decide what is returned. [DEFAULTS-RO] aliases of a mutable default are followed through locals, loop variables over literal tuples and values returned by callees; the witnesses are in-place edits and un-copied stores into an instance."
    " Seventh round: [RA-SEQ] (C04's clause) is run here as well: a frame with another sequence counter never joins the record of an abandoned message."
    " Eighth round: [INSTANCE-STATE] reports a store after construction only when it binds the attribute to a module-level or class-level mutable object (an object every instance sees); late per-instance state as such is STATE-DEPS' subject."
)
ASSUMPTIONS = ["CPython ast parser", "method resolution inside ioclient.py by class-body order (single inheritance)", "a comprehension / list() / set() / split makes a copy"]

def run(chk, program, tier):
    for r, t in (('NO-CLASS-STATE', 'no shared mutable class attribute'), ('DEFAULTS-RO', 'mutable defaults are read-only, transitively'), ('NO-GLOBAL-WRITE', 'no module-level state written'),
                 ('INSTANCE-STATE', 'state created per instance'), ('STATE-DEPS', 'only configuration, source map and reassembly buffers influence results; configuration is immutable'), ('FRESH-MSG', 'message objects are fresh per decode'), ('RA-SAFE', 'raise before write in reassembly'), ('RA-RESET', 'a fresh sequence counter restarts the record completely'), ('RA-PRE', 'stray later frames write nothing'), ('RA-DONE', 'record deleted on delivery'), ('RA-KEY', 'streams do not share a record')):
        chk.rule(r, t)
    I.no_class_state(chk, program)
    I.defaults_ro(chk, program)
    I.no_global_write(chk, program)
    I.instance_state(chk, program)
    I.state_deps(chk, program)
    I.no_decorators(chk, program)
    # FRESH-MSG: reuse GEN-DEC's return obligations
    before = len(chk.obs)
    R.gen_dec(chk, program, slots=[], rule='FRESH-MSG', with_msg=False, with_flow=True)
    # RA-SAFE from C04
    from .. import rules_reasm as RR
    RR.decide(chk, program, tier, ['RA-SAFE', 'RA-RESET', 'RA-PRE', 'RA-DONE', 'RA-KEY', 'RA-SEQ'])

class _Sub:
    """forwards only the selected rules of a shared rule function"""
    def __init__(self, chk, keep):
        self.chk = chk; self.keep = keep
        self.obs = chk.obs
        self.units = {}
        self.errors = chk.errors
    def check(self, cond, rule, *a, **k):
        if rule in self.keep:
            return self.chk.check(cond, rule, *a, **k)
        return cond
    def anchor(self, cond, rule, *a, **k):
        if rule in self.keep:
            return self.chk.anchor(cond, rule, *a, **k)
        return cond
    def ok(self, rule, *a, **k):
        if rule in self.keep: self.chk.ok(rule, *a, **k)
    def violation(self, rule, *a, **k):
        if rule in self.keep: self.chk.violation(rule, *a, **k)
    def unknown(self, rule, *a, **k):
        if rule in self.keep: self.chk.unknown(rule, *a, **k)
    def unit(self, *a, **k): pass
    def floor(self, *a, **k): pass
    def rule(self, *a, **k): pass
