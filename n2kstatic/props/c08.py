"""C08 -- proprietary PGN definitions are selected exactly by their match fields."""
from .. import rules_gen as R, rules_enc as E

LEVEL = 'translation_validation'
EXPLANATION = (
    "Translation validation of the 24 generated dispatchers against canboat.json. [DISP] arms in source order = non-fallback "
    "definitions in database order; each arm's guard = conjunction over the definition's match fields of "
    "((payload >> BitOffset) & (2^BitLength-1)) == Match (canonical Extract terms, constants folded); target = the leaf generated "
    "for that definition; final return = fallback leaf or None. An if/return chain is first-match by Python semantics. "
    "[DISP-REACH] leaves of multi-definition PGNs are referenced only from their dispatcher. [ENC-NAME] exactly one of "
    "encode_pgn_<PGN> / encode_pgn_<PGN>_<Id> exists per definition, matching _call_encode_function's lookup order. "
    "[GEN-DEC id] ties leaf <-> definition <-> reported id. Decided completely for the dispatch decision; nothing undecided."
    " A dispatcher whose structural reading differs from the database (nested tests, a dictionary, a helper predicate) is decided by a decision table over payload classes; the encoder lookup is interpreted for every definition."
    " A dispatcher whose guards cannot be tabulated (match statement, helper taking *fields, struct.unpack, a table of functions ...) is run by the abstract interpreter on one payload per definition, every single-field deviation and every pair of definitions merged, with further payload bits set; the variant it calls is compared with the database's first-match rule."
    ' Fifth round: dispatch differences are reported per (definition the database selects, what the dispatcher selects instead) over all payload classes, the same key whatever the shape of the dispatcher; ENC-STATE classifies attribute uses (see C02).'
    ' Eighth round: [DISP] no-definition-selected-is-not-decoded -- on the interpreted decode path a dispatcher stand-in that returns None leads to nothing returned, under every option world (each constructor parameter with default False switched on in turn).'
)
ASSUMPTIONS = ["CPython ast parser", "Python if/return chains are first-match", "canboat.json is the oracle",
               "sym.py constant folding of >> & == on int literals"]

def run(chk, program, tier):
    chk.rule('ENC-STATE', 'encoder keeps no state between messages besides the fast-packet sequence counter')
    chk.rule('DISP', 'dispatcher arms vs database order and match fields')
    chk.rule('DISP-REACH', 'leaf decoders of multi-definition PGNs referenced only by their dispatcher')
    chk.rule('ENC-NAME', 'one encoder per definition under the name the encoder lookup forms')
    chk.rule('GEN-DEC', 'leaf decoder reports the PGN/id of its definition')
    nd, na, nc = R.disp(chk, program)
    # which definition decodes a payload does not depend on the payloads decoded before it (C16 STATE-DEPS / FRESH-MSG)
    chk.rule('STATE-DEPS', 'the decode path depends only on configuration, source map and reassembly buffers (C16)'); chk.rule('FRESH-MSG', 'no memoised message objects (C16)')
    from .. import rules_iso
    from .c16 import _Sub
    rules_iso.state_deps(_Sub(chk, {'STATE-DEPS'}), program)
    rules_iso.no_decorators(_Sub(chk, {'FRESH-MSG'}), program)
    R.disp_reach(chk, program)
    from .. import rules_filter as F_
    F_.no_match_not_decoded(chk, program)
    E.enc_name(chk, program)
    E.enc_state(chk, program)
    R.gen_dec(chk, program, slots=[], rule='GEN-DEC', with_msg=True, with_flow=False)
    chk.unit('programs', nd)
    chk.floor('dispatchers', nd, 24)
    chk.floor('arms', na, 150)
