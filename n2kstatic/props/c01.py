"""C01 -- decoded fields match the canboat definition for every PGN and payload."""
from .. import rules_gen as R

LEVEL = 'translation_validation'
EXPLANATION = (
    "Translation validation: each generated decoder (one translated program per database definition) is turned back into a table by "
    "def-use substitution and constant propagation (sym.py) and compared with canboat.json. [GEN-DEC] message constructor (PGN, id, "
    "description, ttl) and, per field in database order up to the first unsupported type, all nine NMEA2000Field slots bound by "
    "dataclass field name; value/raw_value must be the helper call the field type prescribes with BitOffset (running offset folded), "
    "BitLength, Signed, Resolution, RangeMin, RangeMax, lookup table name. [GEN-TAB] lookup / bit-lookup / indirect-lookup tables "
    "entry by entry. [GEN-RAISE] raise/assert inventory: only the unsupported-field-type raise is allowed; constant-false assertions "
    "are violations. [GEN-OFFSET] database Offset applied. [HELP-DEC] residual of utils.decode_number etc. at every distinct "
    "database argument tuple equals the rows the database field prescribes (extract, sign, not-available, scale, range). [ENDIAN] "
    "payload reaches int.from_bytes as (reversed,'big'). UNDECIDED: helper numerics beyond the slot rows (float rounding, "
    "decode_time truncation, malformed string lengths, implicit IndexError), repeating field sets."
    " When decode_number's decision list is not of the spelling read by HELP-DEC (sign extension by xor, nested range tests, a helper for the tolerance ...), the residual is evaluated (terms, not code) at every raw value near a place where the statement changes its answer -- 0, sign boundary, not-available code, all-ones, the range ends and the float tolerance band -- at all raw values of fields up to 12 bits and at 257 spread values, at two bit offsets with other payload bits set; a disagreement is reported with the raw value. DISP: a dispatcher whose guards cannot be tabulated is run by the abstract interpreter on one payload per definition, every single-field deviation and every pair of definitions merged."
    " Fifth round: dispatch differences are keyed by (definition selected by the database, definition served); a helper reading that ends in code the partial evaluator did not follow (another module's class, a module-level table) gives no verdict."
    ' Seventh round: [DEC-REACH] the decode path interpreted on an all-zero payload reaches the generated decoder with the integer 0, and on addressed and broadcast PGNs hands PGN, priority, source and destination on unchanged; [HELP-STR] decode_bit_lookup and decode_string_lau are also interpreted on concrete payloads (a sparse table; a text with its length byte) so that a loop bound or a skip taken from the wrong quantity has a witness.'
    ' Eighth round: a generated decoder that goes on past the field type at which the reference stops (support for that type added later) gives no verdict for the fields beyond (was: violation).'
)
ASSUMPTIONS = ["CPython ast parser", "canboat.json is the oracle", "sym.py transfer functions (substitution, int/float constant folding)",
               "dataclass positional binding follows annotated-field order of message.py"]

def run(chk, program, tier):
    chk.rule('GEN-DEC', 'generated decoder table == database definition, slot by slot')
    chk.rule('GEN-TAB', 'lookup tables == database enumerations, entry by entry')
    chk.rule('GEN-RAISE', 'raise/assert inventory of generated decoders')
    chk.rule('GEN-OFFSET', 'database Offset applied between scaling and range check')
    chk.rule('DISP', 'the dispatcher of a multi-definition PGN selects the definition the database prescribes (C08)')
    chk.rule('HELP-DEC', 'residual of decode_number / decode_int at database constants == database rows')
    chk.rule('NA-RANGE', 'the not-available code lies outside the database range')
    chk.rule('HELP-STR', 'string helpers: skip = 8 x length byte; fixed strings take exactly their bits')
    chk.rule('HELP-SIB', 'sibling helpers agree (float formats, date epoch, time decomposition)')
    off = R.gen_dec(chk, program)
    # what is decoded from a payload does not depend on the payloads decoded before it (C16)
    chk.rule('FRESH-MSG', 'no memoised message objects (C16)'); chk.rule('STATE-DEPS', 'the decode path depends only on configuration, source map and reassembly buffers (C16)')
    from .. import rules_iso
    from .c16 import _Sub
    rules_iso.no_decorators(_Sub(chk, {'FRESH-MSG'}), program)
    rules_iso.state_deps(_Sub(chk, {'STATE-DEPS'}), program)
    # a decode helper that writes module-level state (a cache keyed too coarsely) makes one decoded value depend on what was decoded before (C16's clause)
    chk.rule('NO-GLOBAL-WRITE', 'no function writes module-level state (C16)')
    rules_iso.no_global_write(_Sub(chk, {'NO-GLOBAL-WRITE'}), program)
    chk.rule('DEC-REACH', 'every well-formed frame reaches its generated decoder, addressed as it arrived')
    from .. import rules_filter as _RF
    _RF.decode_reach(chk, program)
    R.gen_tab(chk, program)
    R.gen_raise(chk, program)
    R.gen_offset(chk, program, off)
    R.disp(chk, program)
    from .. import rules_help
    rules_help.help_dec(chk, program)
    rules_help.help_siblings(chk, program)
    rules_help.help_strings(chk, program)
    chk.unit('programs', chk.units.get('decoders_matched', 0))
    chk.floor('decoders', chk.units.get('decoders_matched', 0), 410)
    chk.floor('field_rows', chk.units.get('field_rows', 0), 3000)
    chk.floor('table_entries', chk.units.get('table_entries', 0), 2000)
