"""C14 -- close() is final and status notifications are faithful."""
from .. import rules_client as K

LEVEL = 'other'
EXPLANATION = (
    "Typestate + atomic sections on the statement CFG of nmea2000/ioclient.py. [STATE-WRITER] _state is assigned only in "
    "AsyncIOClient.__init__ and _update_state (package-wide who-may-write, including setattr/__dict__ forms). [CLOSED-FINAL] every "
    "call _update_state(X) with X other than CLOSED, and every call of _connect_impl, is reached on every CFG path from a test "
    "establishing state != CLOSED (evaluated three-valued under the assumption state == CLOSED) with no await node in between -- "
    "asyncio can interleave close() only at an await -- or the setter itself refuses to leave CLOSED. [NOTIFY] in _update_state the "
    "equal-state return dominates the write; the callback is invoked after the write with no await in between, with the new state, "
    "inside try/except Exception without re-raise; it is the only invocation site in the package. [CLOSE-DOES] close() sets CLOSED "
    "first, closes the writer if present, cancels both stored tasks; both background loops test CLOSED in their condition; every "
    "create_task site is stored-and-cancelled, self-terminating on a CLOSED test at entry, or loop-free. UNDECIDED: that tasks have "
    "actually finished when close() returns (the 10 ms sleeps are timing), callback slowness."
    " [CLOSE-DOES close::link-shut-before-awaiting-after-a-cancel] close() may run inside the receive callback, i.e. in the task it cancels: on every path from its entry to an await that a .cancel() can precede, self.writer.close() has been passed (forward must-analysis; paths on which there is no writer excepted). 'CLOSED at entry' of a background coroutine is decided path-sensitively: with the state CLOSED (tests on the state and on local flags computed from it followed accordingly) no await, loop or raise is reachable."
    ' Fifth round: a path through a fault handler is a witness only when no undecided test on it reads something of the client that may stand for the connection state; start / get / put sites that moved into helpers, an attempt or a callback inside a `with` over an unknown context manager, and reads made through helpers are undecided; a helper coroutine runs under the lock when every call (or hand-over as a value) of it does.'
    " Seventh round: [CLOSE-DOES] close::on-every-path -- in the graph of close(), in the world 'writer present, both background tasks running', every path from entry to exit passes the writer's close and both cancellations; tests of the connection state are taken both ways (close() must work from every state), a test of something else of the client gives no verdict."
)
ASSUMPTIONS = ["CPython ast parser", "asyncio: tasks interleave only at a suspending await; `await coro()` runs coro synchronously to its first suspension",
               "every `await` is treated as a possible suspension", "cfg.py exception-edge model (statements containing call/await/subscript/raise/assert may raise)"]

def run(chk, program, tier):
    chk.rule('STATE-WRITER', 'who may write _state')
    chk.rule('CLOSED-FINAL', 'not-CLOSED test reaches every state change / connection attempt without an await')
    chk.rule('NOTIFY', 'one notification per change, in order, shielded')
    chk.rule('CLOSE-DOES', 'close() sets CLOSED first, closes writer, cancels tasks; loops and tasks honour CLOSED')
    K.state_members(program)
    K.state_writer(chk, program)
    K.closed_final(chk, program)
    K.notify(chk, program)
    K.close_does(chk, program)
    K.close_order(chk, program)
    K.connect_shuts_late_link(chk, program)
    K.close_every_path(chk, program)
