"""C11 -- messages carry the identity of their source's latest address claim."""
from .. import rules_decoder as D

LEVEL = 'other'
EXPLANATION = (
    "[MAP-KEY] every read and write of the source map is keyed by the source-address parameter, and (pgn, priority, source, destination) keep their "
    "positions down the call chain _decode -> _decode_fast_message -> _call_decode_function (the roles at _decode's entry are C07 FE-ROLE's). "
    "[MAP-REPLACE] on the claim path the map entry is replaced by IsoName(<this decoded message>, <its own payload integer>) unless an entry exists "
    "whose NAME equals that integer; no third path. [MAP-ATTACH] the identity handed to add_data is the map entry for that source (dependency through "
    "the ite terms), add_data stores it and the addressing. [MFR-GUARD] decision table (teval.py) over manufacturer exclude/include x claimed / never "
    "claimed / claimed without manufacturer x mapping on/off x inside/after the discovery window, for an ordinary message and a claim: withheld exactly "
    "as the statement says, and always decided in _decode (before decoding or reassembly). [MFR-NORM] both sides of the manufacturer comparison are "
    "lower-cased. [ISONAME-IDS] the nine field ids IsoName reads exist in the database's isoAddressClaim with the kind each getter expects, each "
    "attribute is filled from the field of the same name, device instance = upper << BitLength(lower) | lower. UNDECIDED: history-level 'most recent', "
    "timing of the window."
    ' MAP-REPLACE / MAP-ATTACH / MAP-KEY are decided on a history run by the interpreted decode path (rules_decoder.map_history: claim from 7, message from 7, message from unclaimed 9, claim from 9, claim from 11 with the NAME of 7, the same claim from 7 again, a claim with another NAME from 7, message from 7; also with the claim PGN excluded); the readings of particular spellings only confirm, except the hand-over of the identity through _decode_fast_message, which stays a rule. MFR-GUARD also covers both lists configured at once.'
    ' Fifth round: the history now also runs through the fast-packet path (a one-frame message from a claimed and from an unclaimed source; a two-frame message with a claim of its source between the frames, whose completed message must carry the latest claim) and includes a claim whose NAME differs outside serial number and manufacturer; the stand-in claim carries the fields the database lays out in the NAME and the real IsoName constructor derives the identity from them. [MFR-GUARD history] on one interpreted decoder with garmin excluded / garmin as the only included manufacturer the filter must follow the latest claim of an address. Structural readings of the map only confirm; where no interpreted history covers a construct they are reported as undecided, never as a violation.'
    ' Seventh round: when IsoName.__init__ does not read the claim fields in the recognised spelling (a table of field ids, a loop) the constructor is interpreted on stand-in claims whose fields all carry different values and every identity attribute is compared with the field of the same name.'
    " Eighth round: [DEFAULTS-RO] (C16's clause) is run here: the source map is per decoder -- a mutable default or the caller's dictionary kept uncopied is one map for several decoders."
)
ASSUMPTIONS = ["CPython ast parser", "sym.py guard extraction, teval.py evaluation", "canboat.json is the oracle for field ids and kinds"]

def run(chk, program, tier):
    for r, t in (('MAP-KEY', 'map keyed by source address'), ('MAP-REPLACE', 'reuse iff NAME unchanged, else replace with this claim'), ('MAP-ATTACH', 'identity attached = map entry of the source'),
                 ('MFR-GUARD', 'manufacturer / discovery-window decision table'), ('MFR-NORM', 'case-insensitive manufacturer comparison'), ('ISONAME-IDS', 'identity fields vs database')):
        chk.rule(r, t)
    consts, stages = D.map_rules(chk, program)
    D.mfr_rules(chk, program, consts, stages)
    D.isoname_ids(chk, program)
    # the map belongs to the decoder object: a default (or the caller's dictionary) stored uncopied is one map for every decoder built that way
    chk.rule('DEFAULTS-RO', 'mutable defaults are read-only, transitively (the source map is per decoder)')
    from .. import rules_iso as I
    I.defaults_ro(chk, program)
