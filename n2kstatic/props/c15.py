"""C15 -- JSON round-trips to an equivalent, re-encodable message; dump is faithful."""
import ast
import itertools
from .. import rules_filter as F, rules_enc as E, sym, teval
from ..sym import C, NONE, show
from ..model import AnalysisError

LEVEL = 'other'
DEC = 'nmea2000/decoder.py'
MSG = 'nmea2000/message.py'
EXPLANATION = (
    "[DUMP-GUARD] the guard of the dump write in _call_decode_function (sym.py) is tabulated (teval.py) over every dump list of up to two entries drawn "
    "from {this PGN, another PGN, this id / another id as given, lower-cased, upper-cased} and equals the statement's 'no filter, or PGN listed, or id "
    "listed (case-insensitive)'; with no dump file nothing is written; a message removed by the PGN filters is never written (the write follows "
    "every filter return in program order and is evaluated on filtered models too). [DUMP-NORM] the id test compares a lower-cased probe with the "
    "lower-cased list. [DUMP-TEXT] what is written is to_json() + newline; the file is opened in append mode and closed by close()/__exit__. "
    "[JSON-TYPES] to_json passes the object graph to orjson with a default hook that renders bytes/bytearray as hex and timedelta as seconds and raises "
    "TypeError otherwise; the producers of value/raw_value return only int, float, str, bytes, date, time, None (helper return inventory). "
    "[JSON-BACK] from_json rebuilds the message and every field object; [JSON-RAW-FIRST] every generated encoder producer whose displayed value is "
    "not JSON-native (DATE, TIME/DURATION) or is a lookup name prefers raw_value. to_json, its default hook and from_json are interpreted over abstract values (what is handed to orjson.dumps; the hook on bytes / bytearray / timedelta / another class; NMEA2000Message(**d) with fields rebuilt as NMEA2000Field(**f) in order). UNDECIDED: value equality after the round trip (floats, NaN, "
    "non-ASCII), enum/identity reconstruction."
    ' [JSON-TYPES class::*] NMEA2000Message, NMEA2000Field and IsoName are dataclasses (serialised natively by orjson) or are converted by the default hook; PhysicalQuantities / FieldTypes are Enums.'
    ' Seventh round: [JSON-BACK] raw value 0 survives from_json; the `encode --file` branch of cli.py is interpreted on stand-in files (one JSON text with and without a final line break, two lines): what from_json receives, joined, is the text of the file.'
)
ASSUMPTIONS = ["CPython ast parser", "orjson natively serialises str/int/float/bool/None/list/dict/dataclass/datetime/date/time/enum and calls `default` for anything else",
               "sym.py guard extraction; teval.py evaluation of membership tests on stand-in lists"]

def dump_history(chk, program, consts, sf, cf):
    """[DUMP-GUARD history] the dump decision is taken per message: on one interpreted decoder (rules_filter.DecodePath) with an open dump file and
    the dump filter naming one definition id, messages of one PGN number under two definition ids are fed in both orders; a line is written for the
    named id and only for it, whatever came before.  Not interpretable -> no verdict from this clause."""
    from .. import absint as A_
    db = program.db
    ordinary = [d for d in db.defs if not d.group.complex and d.pgn != consts['ISO_CLAIM_PGN'] and d.id != d.id.lower() and len(d.group.defs) == 1]
    P, ID = ordinary[0].pgn, ordinary[0].id
    OTHER = 'anotherDefinitionOfThatNumber'
    class _F:      # stand-in for the open file (DecodePath recognises the class name)
        pass
    fn = program.fn('decoder', 'NMEA2000Decoder._call_decode_function')
    for order in ((OTHER, ID, OTHER, ID), (ID, OTHER, ID)):
        try:
            attrs = F.runtime_attrs(program, sf, cf, consts, [], [], (ID,))
            dp = F.DecodePath(program, attrs, consts, extra_self={'dump_TextIOWrapper': _F()})
            rep = []
            for mid in order:
                r = dp.feed(P, mid, src=7)
                rep.append((mid, r['status'], r['writes']))
        except (A_.Unknown, A_.RaiseSignal, teval.EvalUnknown, KeyError, AttributeError, TypeError, AnalysisError) as u:
            chk.unit('dump_history_not_interpretable', f"{type(u).__name__}: {u}"[:160])
            return
        for k, (mid, status, w) in enumerate(rep):
            want = 1 if mid == ID else 0
            chk.check(status == 'returned' and w == want, 'DUMP-GUARD', f"history::{'-'.join('named' if x == ID else 'other' for x in order)}::step{k + 1}", file=DEC, line=fn.lineno, func='_call_decode_function',
                      expected=f"returned, {want} dump line(s) (the dump filter names the id {ID})", found={'status': status, 'lines': w},
                      detail='' if (status == 'returned' and w == want) else 'the dump decision for this message is wrong at this point of the history (a verdict remembered from an earlier message of that PGN number, or an id test that does not match the id as the filter stores it)')

def dump_history_unfiltered(chk, program, consts, sf, cf):
    """the same with no dump filter (everything returned is dumped, once) and one definition excluded by id: the excluded message leaves no line,
    a returned one exactly one"""
    from .. import absint as A_
    db = program.db
    ordinary = [d for d in db.defs if not d.group.complex and d.pgn != consts['ISO_CLAIM_PGN'] and d.id != d.id.lower() and len(d.group.defs) == 1]
    P, ID = ordinary[0].pgn, ordinary[0].id
    OTHER = 'anotherDefinitionOfThatNumber'
    class _F:
        pass
    fn = program.fn('decoder', 'NMEA2000Decoder._call_decode_function')
    try:
        attrs = F.runtime_attrs(program, sf, cf, consts, [OTHER], [], ())
        dp = F.DecodePath(program, attrs, consts, extra_self={'dump_TextIOWrapper': _F()})
        rep = []
        for mid in (OTHER, ID, OTHER, ID):
            r = dp.feed(P, mid, src=7)
            rep.append((mid, r['status'], r['writes']))
    except (A_.Unknown, A_.RaiseSignal, teval.EvalUnknown, KeyError, AttributeError, TypeError, AnalysisError) as u:
        chk.unit('dump_history_unfiltered_not_interpretable', f"{type(u).__name__}: {u}"[:160])
        return
    for k, (mid, status, w) in enumerate(rep):
        want = ('returned', 1) if mid == ID else ('filtered', 0)
        chk.check((status, w) == want, 'DUMP-GUARD', f"history::no-dump-filter,one-id-excluded::step{k + 1}", file=DEC, line=fn.lineno, func='_call_decode_function',
                  expected=f"{want[0]}, {want[1]} dump line(s)", found={'status': status, 'lines': w},
                  detail='' if (status, w) == want else 'a message the filters withhold is written to the dump, or a returned message is written twice')

def cli_file_reaches_from_json(chk, program, rule='JSON-BACK'):
    """the command line's `encode --file` branch: what the file holds is what from_json gets -- the whole text, or its lines one by one with none
    lost.  The branch is interpreted with a stand-in file of one JSON text without a trailing line break, and of two lines; what is handed to
    from_json, joined, must be the file's text (white space at the ends aside).  No cli module, no such branch, or a branch the interpreter cannot
    follow: no verdict from this clause."""
    import ast
    from .. import absint as A
    if 'cli' not in program.modules:
        return
    mod = program.mod('cli')
    branch = None
    for fn in ast.walk(mod.tree):
        if isinstance(fn, (ast.FunctionDef, ast.AsyncFunctionDef)):
            for n in ast.walk(fn):
                if isinstance(n, ast.If) and ast.unparse(n.test) == 'args.file' and any(isinstance(c, ast.Call) and ast.unparse(c.func).endswith('from_json') for b in n.body for c in ast.walk(b)):
                    branch = n
    if branch is None:
        chk.unit('cli_file_branch', 'not found')
        return
    bad = []
    try:
        for name, text in (('one-message-no-line-break-at-the-end', '{"PGN": 1}'), ('one-message-with-line-break', '{"PGN": 1}\n'), ('two-lines', '{"PGN": 1}\n{"PGN": 2}\n'),
                           ('two-lines-no-line-break-at-the-end', '{"PGN": 1}\n{"PGN": 2}')):
            got = []
            handle = A.AObj(__file__=True)
            def hook(it, call, env, got=got, handle=handle, text=text):
                nm = ast.unparse(call.func)
                if nm == 'open':
                    return handle
                if isinstance(call.func, ast.Attribute) and isinstance(call.func.value, ast.Name) and env.get(call.func.value.id) is handle:
                    if call.func.attr == 'read' and not call.args:
                        return A.AStr([('lit', text)])
                    if call.func.attr in ('readlines',) and not call.args:
                        return A.AList([A.AStr([('lit', l)]) for l in text.splitlines(True)])
                    if call.func.attr == 'close':
                        return None
                    raise A.Unknown(f"file method {call.func.attr}")
                if nm.endswith('from_json'):
                    a = it.expr(call.args[0], env)
                    if not (isinstance(a, A.AStr) and a.literal() is not None):
                        raise A.Unknown('from_json argument not followed')
                    got.append(a.literal())
                    return A.AOpaque('message')
                if nm.startswith('encoder.') or nm in ('print', 'exit', 'sys.exit') or nm.startswith('logger.') or nm.startswith('logging.'):
                    for a_ in call.args:
                        it.expr(a_, env)          # the arguments are evaluated (from_json may be called in place)
                    return A.AOpaque(nm)
                return NotImplemented
            it = A.Interp(hook=hook, module=A.ModuleEnv(mod.tree))
            env = {'args': A.AObj(file=A.AStr([('lit', 'messages.json')]), frame=None), 'encoder': A.AObj()}
            try:
                it.block(branch.body, env)
            except A.RaiseSignal:
                pass
            whole = [g.strip() for g in got] == [text.strip()]
            by_line = [g.strip() for g in got if g.strip()] == [l.strip() for l in text.splitlines() if l.strip()]
            if 'two-lines' in name and len(got) == 1 and whole:
                continue          # the reader takes one JSON text per file: a file of several lines is not its input
            if not (whole or by_line):
                bad.append(f"{name}: file text {text!r} -> from_json receives {got!r}")
    except (A.Unknown, A.PyError, RecursionError) as u:
        chk.unit('cli_file_branch_not_interpretable', str(u)[:160])
        return
    chk.check(not bad, rule, 'cli::encode-file::every-message-of-the-file-reaches-from_json', file='nmea2000/cli.py', line=branch.lineno, func='async_main',
              expected='the text of the file (or each of its lines) is handed to NMEA2000Message.from_json', found='ok' if not bad else bad[:3],
              detail='' if not bad else 'a message of the file is never parsed back: the round trip through a file loses it')

def run(chk, program, tier):
    for r, t in (('DUMP-GUARD', 'dump decision table'), ('DUMP-NORM', 'LOWER probe against the lower-cased dump id list'), ('DUMP-TEXT', 'json + newline, append mode, closed'),
                 ('JSON-TYPES', 'default hook covers non-native types'), ('JSON-BACK', 'from_json rebuilds message and fields'), ('JSON-RAW-FIRST', 'encoders prefer raw values')):
        chk.rule(r, t)
    consts = F.module_consts(program)
    sf, cf = F.facts_or_none(program)
    dump_history(chk, program, consts, sf, cf)
    cli_file_reaches_from_json(chk, program)
    dump_history_unfiltered(chk, program, consts, sf, cf)
    stages = {'_decode': F.stage_events(program, '_decode'), '_call_decode_function': F.stage_events(program, '_call_decode_function')}
    fn, ex = stages['_call_decode_function']
    writes = [(i, e) for i, e in enumerate(ex.events) if e[0] == 'expr' and e[2][0] == 'call' and e[2][1][0] == 'attr' and e[2][1][2] == 'write'
              and e[2][1][1][0] == 'attr' and e[2][1][1][2] == 'dump_TextIOWrapper']
    chk.anchor(len(writes) == 1, 'DUMP-GUARD', 'one-write-site', file=DEC, line=fn.lineno, func='_call_decode_function', expected=1, found=len(writes))
    if len(writes) != 1:
        return
    wi, we = writes[0]
    # program order: after every `return None`
    later_none = [e for e in ex.events[wi:] if e[0] == 'return' and e[2] == NONE]
    chk.check(not later_none, 'DUMP-GUARD', 'write-after-filters', file=DEC, line=we[-1], func='_call_decode_function', expected='no filter return after the dump write', found=[e[-1] for e in later_none])
    arg = we[2][2][0] if we[2][2] else None
    # <message>.to_json() followed by one newline: as a concatenation or as an f-string
    jt = None
    if arg is not None and arg[0] == 'binop' and arg[1] == '+' and arg[3] == C('\n'):
        jt = arg[2]
    elif arg is not None and arg[0] == 'fstr' and len(arg[1]) == 2 and arg[1][1] == C('\n') and arg[1][0][0] == 'fmt' and arg[1][0][2] == -1 and arg[1][0][3] is None:
        jt = arg[1][0][1]
    okt = jt is not None and jt[0] == 'call' and jt[1][0] == 'attr' and jt[1][2] == 'to_json' and not jt[2]
    msgterm = jt[1][1] if okt else None
    rets = [e for e in ex.events if e[0] == 'return' and e[2] != NONE]
    chk.check(okt and rets and rets[-1][2] == msgterm, 'DUMP-TEXT', 'text', file=DEC, line=we[-1], func='_call_decode_function',
              expected='<returned message>.to_json() + "\\n"', found=show(arg) if arg else None)
    db = program.db
    ordinary = [d for d in db.defs if not d.group.complex and d.pgn != consts['ISO_CLAIM_PGN'] and d.id != d.id.lower() and len(d.group.defs) == 1]
    P, ID, Q, OTHER = ordinary[0].pgn, ordinary[0].id, ordinary[1].pgn, ordinary[1].id
    uni = [P, Q] + [x for b in (ID, OTHER) for x in (b, b.lower(), b.upper())]
    configs = [()] + [(a,) for a in uni] + list(itertools.combinations(uni, 2))
    if tier == 'thorough':
        configs += list(itertools.combinations(uni, 3))
    disagreements = {}
    nm = 0
    class _F:      # stand-in for the open file
        pass
    for filt in ((), ('exclude', (P,)), ('exclude', (ID,)), ('include', (Q,))):
        excl = list(filt[1]) if filt and filt[0] == 'exclude' else []
        incl = list(filt[1]) if filt and filt[0] == 'include' else []
        for dump in configs:
            for has_file in (True, False):
                attrs = F.runtime_attrs(program, sf, cf, consts, excl, incl, dump)
                model, msg = F.make_model(attrs, consts, P, ID, extra_self={'dump_TextIOWrapper': _F() if has_file else None})
                try:
                    try:
                        res = F.outcome(program, stages, model)
                        written = False
                        if res[0] == 'returned':
                            written = teval.guard_true(we, model)
                    except teval.EvalUnknown as u0:
                        from .. import absint as A_
                        try:
                            det_ = F.outcome_interp(program, attrs, consts, P, ID, extra_self={'dump_TextIOWrapper': _F() if has_file else None})
                        except (A_.Unknown, A_.RaiseSignal, KeyError, AttributeError, TypeError) as u2:
                            raise teval.EvalUnknown(f"{u0} / decode path not interpretable: {u2}"[:300])
                        res = (det_['status'], det_['stage'], 0, det_['stored'])
                        written = det_['writes'] == 1 and res[0] == 'returned'
                        if det_['writes'] > 1 or (det_['writes'] and res[0] != 'returned'):
                            written = not (has_file and F.spec_permitted(P, ID, excl, incl))      # forces a disagreement: a line for a withheld message, or two lines
                except teval.EvalUnknown as u:
                    chk.unknown('DUMP-GUARD', f"dump={dump}", f"guard not evaluable: {u}", DEC, we[-1]); return
                nm += 1
                nums = [x for x in dump if isinstance(x, int)]; ids = [x.lower() for x in dump if isinstance(x, str)]
                permitted = F.spec_permitted(P, ID, excl, incl)
                want = has_file and permitted and ((not dump) or P in nums or ID.lower() in ids)
                shape = F._shape(dump, P, ID) + ('' if has_file else '/no-file') + ('' if permitted else '/filtered-out')
                if written != want:
                    disagreements.setdefault(shape, []).append(dump)
                else:
                    chk.ok('DUMP-GUARD', f"{shape}::{F._cfgs(dump)}::{filt}", file=DEC, line=we[-1])
    for shape, lst in sorted(disagreements.items()):
        chk.violation('DUMP-GUARD', f"dump::{shape}", file=DEC, line=we[-1], func='_call_decode_function',
                      expected='written iff the message is returned and (no dump filter, or its PGN is listed, or its id is listed, case-insensitively)',
                      found='not written' if 'hit' in shape and 'no-file' not in shape and 'filtered-out' not in shape else 'decision differs',
                      detail=f"{len(lst)} dump lists of this shape disagree, e.g. dump_pgns={list(lst[0])} for PGN {P} id {ID}")
    chk.unit('dump_models', nm)
    chk.floor('dump_models', nm, 200)
    dump_names = F.attr_names(program, cf)['dump_pgns']
    n = F.norm_rule(chk, program, 'DUMP-NORM', {dump_names[1]}, {dump_names[0]}, ['_call_decode_function'], consts)
    chk.floor('dump_membership_tests', n, 1)       # the case variants are decided by the table above; this reading only confirms the spelling `probe.lower() in list`
    dump_file(chk, program)
    json_rules(chk, program)
    message_fields(chk, program)
    serialisable_classes(chk, program)
    # value / raw_value producers of every generated field (C01 GEN-DEC slots): what reaches to_json is what the type table prescribes
    from .. import rules_gen as RG
    RG.gen_dec(chk, program, slots=['value', 'raw_value'], rule='JSON-TYPES', with_msg=False, with_flow=False)
    # JSON-RAW-FIRST
    chk2 = _Null()
    sites = E.gen_enc(chk2, program, want=())
    k = 0
    for d, f, fname, row, t in sites:
        cls = row['cls']
        if f.type in ('DATE', 'TIME', 'DURATION', 'LOOKUP'):
            k += 1
            if cls['kind'] == '?':
                # the producer was not read (C02 / C09 GEN-ENC say so): nothing is known about which value it prefers
                chk.unknown('JSON-RAW-FIRST', f"{fname}::{f.id}", cls.get('why', 'producer not read')[:200], 'nmea2000/pgns.py', t.s['line'])
                continue
            chk.check(cls['kind'] in ('DATE', 'TIME', 'LOOKUP'), 'JSON-RAW-FIRST', f"{fname}::{f.id}", file='nmea2000/pgns.py', line=t.s['line'], func=fname,
                      expected='raw_value used when present (value may be ISO text / a name after a JSON round trip)', found=cls['kind'])
            if cls.get('raw_truthy'):
                chk.violation('JSON-RAW-FIRST', f"{fname}::{f.id}::raw-value-0-is-present", file='nmea2000/pgns.py', line=t.s['line'], func=fname,
                              expected='raw_value used whenever there is one (`is not None`)', found='raw_value tested for truth: a raw value of 0 falls back to the displayed value',
                              detail='after a JSON round trip the displayed value is ISO text / a name: midnight, the first day of the epoch, code 0 no longer encode to the original bytes')
    chk.floor('raw_first_sites', k, 600)

class _Null:
    def __getattr__(self, n):
        return lambda *a, **k: True
    units = {}

def serialisable_classes(chk, program):
    """orjson serialises dataclass instances and Enum members natively; an instance of any other class goes to the default hook, which raises.
    The objects a message can carry -- the message itself, its fields, the source identity -- must therefore be dataclasses, the quantity /
    field-type values Enum members."""
    m = program.mod('message')
    def is_dataclass(c):
        return any((isinstance(d, ast.Name) and d.id == 'dataclass') or (isinstance(d, ast.Attribute) and d.attr == 'dataclass') or
                   (isinstance(d, ast.Call) and ((isinstance(d.func, ast.Name) and d.func.id == 'dataclass') or (isinstance(d.func, ast.Attribute) and d.func.attr == 'dataclass')))
                   for d in c.decorator_list)
    for cname in ('NMEA2000Message', 'NMEA2000Field', 'IsoName'):
        c = m.classes.get(cname)
        if c is None:
            chk.unknown('JSON-TYPES', f"class::{cname}", 'class not found in message.py', MSG, 0)
            continue
        slots = any(isinstance(n, ast.Assign) and any(isinstance(t, ast.Name) and t.id == '__slots__' for t in n.targets) for n in c.body)
        if not is_dataclass(c):
            # the hook passed as default= may convert it; any mention of the class there is taken as handling (never an alarm on an unread spelling)
            tj = (m.raw_tree if hasattr(m, 'raw_tree') else m.tree)
            hook_names = {n.id for f in ast.walk(tj) if isinstance(f, ast.FunctionDef) and f.name == 'to_json' for n in ast.walk(f) if isinstance(n, ast.Name)}
            bases = {b.id for b in c.bases if isinstance(b, ast.Name)}
            if cname in hook_names or bases & {'dict', 'list', 'str', 'int', 'float', 'TypedDict'} or any(hasattr(x, 'name') and x.name in ('to_json', '__json__') for x in c.body if cname != 'NMEA2000Message'):
                chk.check(True, 'JSON-TYPES', f"class::{cname}::dataclass", file=MSG, line=c.lineno, func=cname, found='not a dataclass, converted by the hook / a native container')
                continue
        chk.check(is_dataclass(c), 'JSON-TYPES', f"class::{cname}::dataclass", file=MSG, line=c.lineno, func=cname, expected='@dataclass (serialised natively by orjson)',
                  found='dataclass' if is_dataclass(c) else ('plain class' + (' with __slots__' if slots else '')),
                  detail='' if is_dataclass(c) else 'to_json raises TypeError for every message that carries an instance of this class (e.g. any message from a source that has claimed its address)')
    cm = program.mod('consts') if 'consts' in program.modules else None
    for cname in ('PhysicalQuantities', 'FieldTypes'):
        c = (cm.classes.get(cname) if cm else None) or m.classes.get(cname)
        if c is None:
            continue
        is_enum = any((isinstance(b, ast.Name) and b.id.endswith('Enum')) or (isinstance(b, ast.Attribute) and b.attr.endswith('Enum')) for b in c.bases)
        chk.check(is_enum, 'JSON-TYPES', f"class::{cname}::enum", file='nmea2000/consts.py', line=c.lineno, func=cname, expected='an Enum (serialised natively by orjson)', found=[ast.unparse(b) for b in c.bases])

def message_fields(chk, program):
    """to_json dumps the whole __dict__ of the message; from_json rebuilds only `fields` as objects.  Every other dataclass field therefore
    travels as plain JSON: its annotation must be JSON-native (or one of the inventoried attributes whose lossy form is harmless to the
    encoders).  A container of objects cached on the message would come back as dicts."""
    c = program.cls('message', 'NMEA2000Message')
    native = {'int', 'str', 'float', 'bool', 'None'}
    inventoried = {'ttl': 'timedelta | None', 'fields': 'list[NMEA2000Field]', 'timestamp': 'datetime', 'source_iso_name': 'IsoName | None', 'raw_can_data': 'bytes | str | None'}
    n = 0
    for st in c.body:
        if isinstance(st, ast.AnnAssign) and isinstance(st.target, ast.Name):
            n += 1
            name = st.target.id
            ann = ast.unparse(st.annotation)
            parts = {x.strip() for x in ann.replace('Optional[', '').replace(']', '').split('|')}
            ok = parts <= native or (name in inventoried and ann.replace(' ', '') == inventoried[name].replace(' ', ''))
            chk.check(ok, 'JSON-BACK', f"NMEA2000Message.{name}::json-form", file=MSG, line=st.lineno, expected='JSON-native annotation, or an inventoried attribute (ttl, fields, timestamp, source_iso_name, raw_can_data)',
                      found=ann, detail='' if ok else 'to_json dumps every attribute of the message and from_json rebuilds only `fields`: this attribute comes back as plain dicts/lists and whatever reads it afterwards (e.g. the encoders through get_field_by_id) fails')
    tj = program.fn('message', 'NMEA2000Message.to_json')
    dumps = [x for x in ast.walk(tj) if isinstance(x, ast.Call) and ast.unparse(x.func) == 'orjson.dumps']
    whole = bool(dumps) and dumps[0].args and ast.unparse(dumps[0].args[0]) in ('self.__dict__', 'self', 'asdict(self)', 'dataclasses.asdict(self)', 'vars(self)')
    chk.check(whole, 'JSON-BACK', 'to_json::dumps-whole-object', file=MSG, line=tj.lineno, func='to_json', expected='the whole message object is serialised', found=ast.unparse(dumps[0].args[0]) if dumps and dumps[0].args else None, nontrivial=False)
    chk.floor('message_dataclass_fields', n, 10)

def dump_file(chk, program):
    init = program.fn('decoder', 'NMEA2000Decoder.__init__')
    opens = [n for n in ast.walk(init) if isinstance(n, ast.Call) and isinstance(n.func, ast.Name) and n.func.id == 'open']
    mode = None
    for o in opens:
        if len(o.args) > 1 and isinstance(o.args[1], ast.Constant):
            mode = o.args[1].value
        for k in o.keywords:
            if k.arg == 'mode' and isinstance(k.value, ast.Constant):
                mode = k.value.value
    chk.check(len(opens) == 1 and mode in ('a', 'at', 'a+'), 'DUMP-TEXT', 'open-append', file=DEC, line=opens[0].lineno if opens else init.lineno, func='__init__', expected="open(path, 'a')", found=mode)
    close = program.fn('decoder', 'NMEA2000Decoder.close')
    closes = [n for n in ast.walk(close) if isinstance(n, ast.Call) and isinstance(n.func, ast.Attribute) and n.func.attr == 'close' and ast.unparse(n.func.value) == 'self.dump_TextIOWrapper']
    chk.check(bool(closes), 'DUMP-TEXT', 'close-closes', file=DEC, line=close.lineno, func='close', expected='self.dump_TextIOWrapper.close()', found=len(closes))
    ex = program.fn('decoder', 'NMEA2000Decoder.__exit__')
    chk.check(any(isinstance(n, ast.Call) and ast.unparse(n.func) == 'self.close' for n in ast.walk(ex)), 'DUMP-TEXT', '__exit__-closes', file=DEC, line=ex.lineno, func='__exit__', expected='self.close()', found='?', nontrivial=False)

def json_semantic(chk, program):
    """to_json / from_json interpreted (absint).  to_json: what is handed to orjson.dumps must be the message's own attribute dictionary (or the
    message), with a `default` hook; the hook, called on bytes, a bytearray, a timedelta and an object of another class, must give hex text,
    hex text, total_seconds() and raise TypeError.  from_json: the parsed dictionary goes to NMEA2000Message(**d) and every entry of d['fields']
    comes back as NMEA2000Field(**entry), in order, as the message's field list.  -> True when decided"""
    from .. import absint as A
    from ..wire import is_logger
    mod = program.mod('message')
    menv = A.ModuleEnv(mod.tree)
    cls = program.cls('message', 'NMEA2000Message')
    methods = {n.name: n for n in cls.body if isinstance(n, ast.FunctionDef)}
    tj = program.fn('message', 'NMEA2000Message.to_json')
    fj = program.fn('message', 'NMEA2000Message.from_json')
    # ---- to_json
    rec = {}
    def hook(it, call, env):
        name = ast.unparse(call.func)
        if name == 'orjson.dumps':
            rec['args'] = [it.expr(a, env) for a in call.args]
            rec['kw'] = {k.arg: (it.expr(k.value, env) if k.arg != 'option' else k.value) for k in call.keywords}
            rec['n'] = rec.get('n', 0) + 1
            return A.AOpaque('json')
        return NotImplemented
    msg = A.AObj(PGN=A.AInt(1), id=A.AStr([('lit', 'x')]), fields=A.AList([]))
    msg.attrs['__class__'] = 'NMEA2000Message'
    try:
        r = A.Interp(hook=hook, skip=is_logger, methods=methods, module=menv).call_function(tj, [msg])
    except (A.Unknown, A.RaiseSignal) as u:
        chk.unit('to_json_not_interpretable', str(u))
        return False
    a0 = rec.get('args', [None])[0] if rec.get('args') else None
    whole = rec.get('n') == 1 and (a0 is msg or (isinstance(a0, A.ADictOf) and a0.obj is msg))
    chk.check(whole, 'JSON-BACK', 'to_json::dumps-whole-object', file=MSG, line=tj.lineno, func='to_json', expected='the whole message object is serialised, once', found=repr(a0), nontrivial=False)
    hookf = rec.get('kw', {}).get('default')
    okd = rec.get('n') == 1 and isinstance(hookf, A.AFunc) and isinstance(r, (A.AOpaque, A.AStr)) and 'json' in repr(r)
    chk.check(okd, 'JSON-TYPES', 'to_json::orjson-with-default', file=MSG, line=tj.lineno, func='to_json', expected='returns the text of orjson.dumps(<object graph>, default=<hook>)',
              found={'dumps_calls': rec.get('n', 0), 'default': repr(hookf), 'returns': repr(r)[:60]})
    if isinstance(hookf, A.AFunc):
        def call_hook(v):
            def hk(it, call, env):
                f = call.func
                if isinstance(f, ast.Attribute) and f.attr == 'total_seconds':
                    o = it.expr(f.value, env)
                    if isinstance(o, A.AObj) and o.attrs.get('__class__') == 'timedelta':
                        return A.AObj(total_seconds_of=o)
                if isinstance(f, ast.Name) and f.id == 'timedelta' and not call.args and len(call.keywords) == 1 and call.keywords[0].arg == 'seconds' \
                        and isinstance(call.keywords[0].value, ast.Constant) and call.keywords[0].value.value == 1:
                    return A.AObj(one_second=True)
                return NotImplemented
            def bh(op, a, b):
                # td / timedelta(seconds=1) is td.total_seconds()
                if isinstance(op, ast.Div) and isinstance(a, A.AObj) and a.attrs.get('__class__') == 'timedelta' and isinstance(b, A.AObj) and b.attrs.get('one_second'):
                    return A.AObj(total_seconds_of=a)
                return NotImplemented
            try:
                it_ = A.Interp(hook=hk, skip=is_logger, module=menv)
                it_.binop_hook = bh
                return ('return', it_.call_function(hookf.fn, [v], closure=hookf.closure))
            except A.RaiseSignal as rs:
                return ('raise', A.exc_kind(rs))
        td = A.AObj(); td.attrs['__class__'] = 'timedelta'
        other = A.AObj(); other.attrs['__class__'] = 'SomethingElse'
        try:
            got = {'bytes': call_hook(A.ABytes([('c', 1), ('c', 0xab)])), 'bytearray': call_hook(A.ABytes([('c', 1), ('c', 0xab)], True)), 'timedelta': call_hook(td), 'other': call_hook(other)}
        except A.Unknown as u:
            chk.unknown('JSON-TYPES', 'to_json::default-hook', f"hook not interpretable: {u}", MSG, hookf.fn.lineno)
            got = None
        if got is not None:
            def is_hex(x):
                return x[0] == 'return' and isinstance(x[1], A.AStr) and (x[1].literal() == '01ab' or (len(x[1].pieces) == 1 and x[1].pieces[0][0] == 'hexbytes' and list(x[1].pieces[0][1]) == [('c', 1), ('c', 0xab)]))
            chk.check(is_hex(got['bytes']) and is_hex(got['bytearray']), 'JSON-TYPES', 'hook::bytes', file=MSG, line=hookf.fn.lineno, func='to_json.default', expected='bytes / bytearray -> lower-case hex text',
                      found={k: repr(got[k][1])[:40] for k in ('bytes', 'bytearray')})
            oktd = got['timedelta'][0] == 'return' and isinstance(got['timedelta'][1], A.AObj) and got['timedelta'][1].attrs.get('total_seconds_of') is td
            chk.check(oktd, 'JSON-TYPES', 'hook::timedelta', file=MSG, line=hookf.fn.lineno, func='to_json.default', expected='timedelta -> total_seconds()', found=repr(got['timedelta'])[:80])
            chk.check(got['other'] == ('raise', 'TypeError'), 'JSON-TYPES', 'hook::otherwise-TypeError', file=MSG, line=hookf.fn.lineno, func='to_json.default',
                      expected='raise TypeError for anything else (orjson contract)', found=repr(got['other'])[:60])
    # ---- from_json
    f1 = A.ADict({'id': A.AStr([('lit', 'a')]), 'value': A.AInt(1), 'raw_value': A.AInt(0)}); f2 = A.ADict({'id': A.AStr([('lit', 'b')]), 'value': A.AInt(2)})
    made = []
    def hook2(it, call, env):
        name = ast.unparse(call.func)
        if name == 'orjson.loads':
            return A.ADict({'PGN': A.AInt(7), 'id': A.AStr([('lit', 'x')]), 'fields': A.AList([f1, f2]), 'destination': A.AInt(0), 'source': A.AInt(0), 'priority': A.AInt(0)})
        if name in ('NMEA2000Message', 'NMEA2000Field', 'cls'):
            srcs = [it.expr(k.value, env) for k in call.keywords if k.arg is None]
            o = A.AObj()
            o.attrs['__class__'] = 'NMEA2000Message' if name in ('NMEA2000Message', 'cls') else 'NMEA2000Field'
            o.attrs['__from__'] = srcs[0] if len(srcs) == 1 and not call.args and all(k.arg is None for k in call.keywords) else None
            if isinstance(o.attrs['__from__'], A.ADict):
                for k_, v_ in o.attrs['__from__'].items.items():
                    o.attrs[k_] = v_
            made.append(o)
            return o
        return NotImplemented
    try:
        args = [A.AStr([('lit', '{}')])] if len(fj.args.args) == 1 else [A.AOpaque('cls'), A.AStr([('lit', '{}')])]
        m2 = A.Interp(hook=hook2, skip=is_logger, module=menv).call_function(fj, args)
    except (A.Unknown, A.RaiseSignal) as u:
        chk.unknown('JSON-BACK', 'from_json', f"not interpretable: {u}", MSG, fj.lineno)
        return True
    flds = m2.attrs.get('fields') if isinstance(m2, A.AObj) else None
    okb = isinstance(m2, A.AObj) and m2.attrs.get('__class__') == 'NMEA2000Message' and isinstance(m2.attrs.get('__from__'), A.ADict) and isinstance(flds, A.AList) and len(flds.items) == 2 \
        and all(isinstance(x, A.AObj) and x.attrs.get('__class__') == 'NMEA2000Field' for x in flds.items) and flds.items[0].attrs.get('__from__') is f1 and flds.items[1].attrs.get('__from__') is f2
    chk.check(okb, 'JSON-BACK', 'from_json', file=MSG, line=fj.lineno, func='from_json', expected='NMEA2000Message(**data) whose fields are [NMEA2000Field(**f) for f in data["fields"]], in order',
              found='ok' if okb else {'result': repr(m2)[:40], 'fields': repr(flds)[:80]})
    if okb:
        rv0 = flds.items[0].attrs.get('raw_value')
        okr = isinstance(rv0, A.AInt) and rv0.v == 0
        chk.check(okr, 'JSON-BACK', 'from_json::zero-raw-value-kept', file=MSG, line=fj.lineno, func='from_json', expected='a field whose raw_value is 0 in the JSON text comes back with raw_value 0',
                  found='ok' if okr else repr(rv0), detail='' if okr else 'raw value 0 (instance 0, code 0, midnight, angle 0) is turned into "absent": the encoders then fall back to the displayed value or refuse')
        # addressing written as 0 (a device at address 0, priority 0) comes back as 0: a falsy value is a value
        zeros = {k: m2.attrs.get(k) for k in ('destination', 'source', 'priority')}
        okz = all(isinstance(v, A.AInt) and v.v == 0 for v in zeros.values())
        chk.check(okz, 'JSON-BACK', 'from_json::zero-addressing-kept', file=MSG, line=fj.lineno, func='from_json', expected='destination / source / priority 0 in the JSON text stay 0',
                  found='ok' if okz else {k: repr(v) for k, v in zeros.items()}, detail='' if okz else 'a message addressed to (or sent by) the device at address 0 comes back with another address')
    return True

def json_rules(chk, program):
    tj = program.fn('message', 'NMEA2000Message.to_json')
    sem = json_semantic(chk, program)
    real = chk
    if sem:
        # the spelling-level reading of to_json / from_json below is replaced by the interpretation above; the option flags and the producer inventory remain
        from ..rules_reasm import _ConfirmOnly
        chk = _ConfirmOnly(real, set())
    hook = [n for n in ast.walk(tj) if isinstance(n, ast.FunctionDef) and n is not tj]
    dumps = [n for n in ast.walk(tj) if isinstance(n, ast.Call) and ast.unparse(n.func) == 'orjson.dumps']
    okd = len(dumps) == 1 and len(hook) == 1 and any(k.arg == 'default' and isinstance(k.value, ast.Name) and k.value.id == hook[0].name for k in dumps[0].keywords)
    chk.check(okd, 'JSON-TYPES', 'to_json::orjson-with-default', file=MSG, line=tj.lineno, func='to_json', expected='orjson.dumps(<object graph>, default=<hook>)', found=[ast.unparse(d)[:80] for d in dumps])
    # options that narrow what orjson accepts natively would make valid messages unserialisable
    NARROWING = ('OPT_STRICT_INTEGER', 'OPT_PASSTHROUGH_DATACLASS', 'OPT_PASSTHROUGH_DATETIME', 'OPT_PASSTHROUGH_SUBCLASS')
    HARMLESS = ('OPT_INDENT_2', 'OPT_SORT_KEYS', 'OPT_NAIVE_UTC', 'OPT_UTC_Z', 'OPT_OMIT_MICROSECONDS', 'OPT_NON_STR_KEYS', 'OPT_SERIALIZE_NUMPY')
    for d in dumps:
        chk_saved, chk = chk, real
        opt = [k.value for k in d.keywords if k.arg == 'option'] + (list(d.args[2:3]) if len(d.args) > 2 else [])
        flags = [n.attr for o in opt for n in ast.walk(o) if isinstance(n, ast.Attribute) and n.attr.startswith('OPT_')]
        if len(opt) == 1 and isinstance(opt[0], ast.Name) and not flags:
            # the option word is assembled in a local (`option = 0; if pretty: option |= orjson.OPT_INDENT_2`): every flag that can enter it counts
            srcs = [n.value for n in ast.walk(tj) if isinstance(n, (ast.Assign, ast.AugAssign, ast.AnnAssign)) and n.value is not None
                    and any(isinstance(t, ast.Name) and t.id == opt[0].id for t in (n.targets if isinstance(n, ast.Assign) else [n.target]))]
            plain = all(isinstance(v_, ast.Constant) and v_.value in (0, None) or
                        all(isinstance(x, (ast.Attribute, ast.Name, ast.BinOp, ast.BitOr, ast.Load, ast.IfExp, ast.Constant, ast.Compare, ast.Is, ast.IsNot, ast.Not, ast.UnaryOp, ast.BoolOp, ast.And, ast.Or)) for x in ast.walk(v_))
                        for v_ in srcs)
            if srcs and plain and opt[0].id not in [a.arg for a in tj.args.args + tj.args.kwonlyargs]:
                flags = [n.attr for v_ in srcs for n in ast.walk(v_) if isinstance(n, ast.Attribute) and n.attr.startswith('OPT_')]
                if not flags and all(isinstance(v_, ast.Constant) for v_ in srcs):
                    opt = []
        unknown = [f for f in flags if f not in NARROWING and f not in HARMLESS and f != 'OPT_APPEND_NEWLINE']
        if unknown or (opt and not flags):
            chk.unknown('JSON-TYPES', 'to_json::options', f"orjson option not classified: {unknown or ast.unparse(opt[0])}", MSG, d.lineno)
        bad = [f for f in flags if f in NARROWING or f == 'OPT_APPEND_NEWLINE']
        chk.check(not bad, 'JSON-TYPES', 'to_json::options', file=MSG, line=d.lineno, func='to_json', expected='no option that narrows the accepted values or alters the text',
                  found=bad or 'none', detail='' if not bad else 'OPT_STRICT_INTEGER rejects integers beyond 53 bits (64-bit NAME of a source identity, 64-bit fields); PASSTHROUGH options route native types to the hook, which raises')
        chk = chk_saved
    if hook:
        h = hook[0]
        handled = {}
        for n in ast.walk(h):
            if isinstance(n, ast.If) and isinstance(n.test, ast.Call) and isinstance(n.test.func, ast.Name) and n.test.func.id == 'isinstance':
                tys = n.test.args[1]
                names = [ast.unparse(e) for e in tys.elts] if isinstance(tys, ast.Tuple) else [ast.unparse(tys)]
                ret = [s for s in n.body if isinstance(s, ast.Return)]
                for nm in names:
                    handled[nm] = ast.unparse(ret[0].value) if ret else None
        p = h.args.args[0].arg
        chk.check(handled.get('bytes') == f"{p}.hex()", 'JSON-TYPES', 'hook::bytes', file=MSG, line=h.lineno, func='to_json.default', expected='bytes -> hex text', found=handled.get('bytes'))
        chk.check(handled.get('timedelta') == f"{p}.total_seconds()", 'JSON-TYPES', 'hook::timedelta', file=MSG, line=h.lineno, func='to_json.default', expected='timedelta -> seconds', found=handled.get('timedelta'))
        last = h.body[-1]
        chk.check(isinstance(last, ast.Raise) and 'TypeError' in ast.unparse(last), 'JSON-TYPES', 'hook::otherwise-TypeError', file=MSG, line=last.lineno, func='to_json.default',
                  expected='raise TypeError for anything else (orjson contract)', found=ast.unparse(last)[:60])
    # producer return-type inventory: decode helpers of utils + int_to_bytes
    chk_before_inventory = chk
    chk = real
    native = {'int', 'float', 'str', 'bytes', 'date', 'time', 'None', 'bool'}
    inv = {}
    u = program.mod('utils')
    for name in ('decode_number', 'decode_int', 'decode_float', 'decode_date', 'decode_time', 'decode_bit_lookup', 'decode_string_fix', 'decode_string_lz', 'decode_string_lau'):
        fnn = u.defs.get(name)
        if fnn is None:
            raise AnalysisError(f"anchor utils.{name} vanished")
        kinds = set()
        for n in ast.walk(fnn):
            if isinstance(n, ast.Return) and n.value is not None:
                kinds.add(_kind_of(n.value, fnn))
        inv[name] = sorted(kinds)
        chk.check(kinds <= native | {'tuple'}, 'JSON-TYPES', f"producer::{name}", file='nmea2000/utils.py', line=fnn.lineno, func=name,
                  expected='returns only int/float/str/bytes/date/time/None', found=sorted(kinds))
    chk.unit('producer_return_kinds', inv)
    chk = chk_before_inventory
    fj = program.fn('message', 'NMEA2000Message.from_json')
    src = ast.unparse(fj)
    ok1 = any(isinstance(n, ast.Call) and ast.unparse(n.func) == 'NMEA2000Message' and any(k.arg is None for k in n.keywords) for n in ast.walk(fj))
    ok2 = any(isinstance(n, ast.ListComp) and isinstance(n.elt, ast.Call) and ast.unparse(n.elt.func) == 'NMEA2000Field' and any(k.arg is None for k in n.elt.keywords) for n in ast.walk(fj))
    ok3 = any(isinstance(n, ast.Assign) and any(isinstance(t, ast.Attribute) and t.attr == 'fields' for t in n.targets) for n in ast.walk(fj))
    chk.check(ok1 and ok2 and ok3, 'JSON-BACK', 'from_json', file=MSG, line=fj.lineno, func='from_json',
              expected='NMEA2000Message(**data) with fields rebuilt as [NMEA2000Field(**f) ...]', found={'message': ok1, 'field_objects': ok2, 'assigned': ok3})

def _kind_of(e, fn):
    if isinstance(e, ast.Constant):
        return 'None' if e.value is None else type(e.value).__name__
    if isinstance(e, ast.Tuple):
        return 'tuple'
    if isinstance(e, ast.Call):
        f = ast.unparse(e.func)
        if f in ('time', 'date'):
            return f
        if f.endswith('.join'):
            return 'str'
    if isinstance(e, ast.Name):
        # look at the assignments of that name
        kinds = set()
        for n in ast.walk(fn):
            if isinstance(n, ast.Assign) and any(isinstance(t, ast.Name) and t.id == e.id for t in n.targets):
                v = n.value
                s = ast.unparse(v)
                if '.decode(' in s or '.split(' in s or '.strip(' in s: kinds.add('str')
                elif 'timedelta' in s and 'date' in s: kinds.add('date')
                elif isinstance(v, ast.Tuple) or 'struct.unpack' in s: kinds.add('float')
                else: kinds.add('int')
            if isinstance(n, ast.AugAssign) and isinstance(n.target, ast.Name) and n.target.id == e.id and isinstance(n.op, ast.Mult):
                kinds.add('float')
        if 'str' in kinds: return 'str'
        if 'date' in kinds: return 'date'
        if 'float' in kinds: return 'float'
        return 'int'
    return 'int'
