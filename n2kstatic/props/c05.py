"""C05 -- CAN identifier packing and parsing are mutually inverse (PDU1/PDU2 aware)."""
import ast

from .. import sym, bitprov as B
from ..sym import C
from ..model import AnalysisError

LEVEL = 'proof'
EXPLANATION = (
    "Proof by bit provenance (bitprov.py), no value enumeration. _build_header is evaluated over inputs priority:3, source:8, dest:8, PGN:18 bits and "
    "_extract_header over a 32-bit identifier, per branch of their PF<0xF0 predicates, giving for every output bit the input bit it carries. "
    "[ID-PARSE/ID-BUILD] (1) after substituting the builder's bits into the parser, the parser's predicate has the same provenance as the builder's, so "
    "branches pair; (2) parse(build(x)) returns priority, source, PGN bit for bit (PDU1: PGN with PS cleared, i.e. the PGN itself in canonical form) and "
    "dest for PDU1 / the constant 255 for PDU2; (3) build(parse(id)) reproduces all 29 identifier bits in both branches and bits 29..31 are never "
    "consulted. [ID-ACT] same for the Actisense header integer. [ID-BYTES] each writer/reader pair uses the same byte order for the 4 identifier bytes. [ID-USE] each frame-level writer calls _build_header itself, once per message, with the message's own PGN/source/destination/priority in those roles (interpreted over the provenance domain). "
    "Each obligation is per bit, hence exhaustive over all 2^29 identifiers. Nothing undecided inside the property's quantifier; out-of-range arguments "
    "(dest > 255, PGN > 18 bits) are outside it."
    " The PF predicates may have any shape: both functions are evaluated per value of the bits their predicates consult (bitprov.cases; order comparisons decided from bounds), so `pf < 0xF0`, `pf >= 240`, `pgn & 0xFF00 < 0xF000`, helper functions and early returns are the same to the rule. ID-ACT and ID-BYTES are decided by composing each writer with its reader over symbolic inputs."
    ' Fifth round: [ID-USE built-afresh] one direct call of _build_header, or the writer interpreted on an encoder without cached state reaches _build_header exactly once through undecorated helpers.'
    ' Eighth round: [ID-USE] when a writer tests the addressing values themselves (`x or default`, range tests) it is interpreted on two concrete addressings (source, destination, priority all zero; none zero) and _build_header must receive exactly those values.'
)
ASSUMPTIONS = ["CPython ast parser", "bitprov.py transfer functions for & | << >> on non-negative ints", "sym.py def-use substitution",
               "inputs are within their declared widths (priority 3, source 8, dest 8, PGN 18 bits)"]
DEC = 'nmea2000/decoder.py'
ENC = 'nmea2000/encoder.py'

def _ret_terms(fn, consts=None):
    ex = sym.SymExec(fn, consts=consts)
    try:
        ex.run()
    except sym.Unsupported as u:
        raise AnalysisError(f"{fn.name}: {u}")
    rets = [e for e in ex.events if e[0] == 'return']
    if not rets:
        raise AnalysisError(f"{fn.name}: no return")
    # several guarded returns are merged into one ite term (first matching return wins)
    result = rets[-1][2]
    for e in reversed(rets[:-1]):
        g = e[1]
        cond = g[0] if len(g) == 1 else ('bool', 'and', tuple(g))
        result = sym.mk_ite(cond, e[2], result)
    return ex, result

def run(chk, program, tier):
    for r, t in (('ID-PARSE', 'parse(build(x)) = x per bit and per branch'), ('ID-BUILD', 'build(parse(id)) = id on all 29 bits; bits 29..31 unused'),
                 ('ID-ACT', 'Actisense header integer build/parse inverse'), ('ID-BYTES', 'byte order of the identifier agrees between writer and reader of each format'),
                 ('ID-USE', 'each writer builds the identifier of the message it writes, afresh'), ('ID-PURE', 'the header functions depend on their arguments only')):
        chk.rule(r, t)
    id_pure(chk, program)
    header_roundtrip(chk, program, tier)
    # the Actisense header word: decided by composing writer and reader over symbolic source / destination / priority (C06's WF-ACT composition);
    # the structural reading (which bits of `n`) confirms where it recognises the spelling
    from . import c06
    from .. import rules_reasm as RR
    c06.actisense_composition(chk, program, (1, 8), 'ID-ACT')
    co = RR._ConfirmOnly(chk, {'ID-ACT'})
    try:
        actisense(co, program)
    except (B.Top, B.NeedBranch, AnalysisError) as t:
        co.unrecognised.append(f"actisense: {t}")
    chk.unit('actisense_shapes_not_recognised', co.unrecognised)
    id_bytes_composition(chk, program)
    co2 = RR._ConfirmOnly(chk, {'ID-BYTES'})
    try:
        id_bytes(co2, program)
    except Exception as t:
        co2.unrecognised.append(f"id_bytes: {t}")
    chk.unit('id_bytes_shapes_not_recognised', co2.unrecognised)
    try:
        id_use(chk, program)
    except (B.Top, B.NeedBranch, AnalysisError) as t:
        chk.unknown('ID-USE', 'id_use', str(t), DEC, 0)

def id_pure(chk, program):
    """_build_header / _extract_header are functions of their arguments: they read no instance, class or module state (a cache keyed by part of the
    arguments would make the identifier of one message depend on earlier ones)"""
    import builtins
    for mod, q, f in (('encoder', 'NMEA2000Encoder._build_header', ENC), ('decoder', 'NMEA2000Decoder._extract_header', DEC)):
        fn = program.fn(mod, q)
        consts = program.module_consts(mod)
        params = {a.arg for a in fn.args.args}
        body = ast.Module(body=fn.body, type_ignores=[])       # the body only: annotations are not behaviour
        local = {n.id for n in ast.walk(body) if isinstance(n, ast.Name) and isinstance(n.ctx, ast.Store)}
        from ..wire import is_logger
        log_nodes = {id(x) for c in ast.walk(body) if isinstance(c, ast.Call) and is_logger(c) for x in ast.walk(c.func)}
        bad = sorted({n.id for n in ast.walk(body) if isinstance(n, ast.Name) and isinstance(n.ctx, ast.Load) and n.id not in params | local and n.id not in consts and not hasattr(builtins, n.id)
                      and id(n) not in log_nodes})
        # names of the module (or imported from a sibling module) that are functions, classes, or values bound once and never modified anywhere
        # in the package are not state: a table computed at import gives the same answer for the same arguments every time
        from .. import absint as A_
        menv = A_.ModuleEnv(program.mod(mod).tree)
        def never_modified(name):
            MUT = {'append', 'extend', 'update', 'pop', 'remove', 'clear', 'add', 'discard', 'insert', 'setdefault', 'popitem', 'sort', 'reverse', '__setitem__', '__delitem__'}
            for m_ in program.modules.values():
                stores_ = 0
                for n_ in ast.walk(m_.tree):
                    if isinstance(n_, ast.Name) and n_.id == name and isinstance(n_.ctx, (ast.Store, ast.Del)):
                        stores_ += 1
                    if isinstance(n_, (ast.Subscript, ast.Attribute)) and isinstance(n_.ctx, (ast.Store, ast.Del)) and isinstance(n_.value, ast.Name) and n_.value.id == name:
                        return False
                    if isinstance(n_, ast.Call) and isinstance(n_.func, ast.Attribute) and isinstance(n_.func.value, ast.Name) and n_.func.value.id == name and n_.func.attr in MUT:
                        hit_ = menv.lookup(name)
                        if not (hit_ is not None and hit_[0] == 'assign' and isinstance(hit_[1], ast.Call) and isinstance(hit_[1].func, ast.Name) and menv.lookup(hit_[1].func.id) is not None
                                and menv.lookup(hit_[1].func.id)[0] == 'class'):
                            return False       # (a method of that name on an object of a package class is that class's business, not a container edit)
                if stores_ > 1:
                    return False
            return True
        def harmless(name):
            hit = menv.lookup(name)
            if hit is None:
                return False
            if hit[0] in ('func', 'class', 'module'):
                return True
            return never_modified(name)
        bad = [n_ for n_ in bad if not harmless(n_)]
        attrs = sorted({ast.unparse(n) for n in ast.walk(body) if isinstance(n, ast.Attribute) and isinstance(n.value, ast.Name) and n.value.id in ('self', 'cls', 'NMEA2000Encoder', 'NMEA2000Decoder')})
        stores = [n for n in ast.walk(body) if isinstance(n, (ast.Subscript, ast.Attribute)) and isinstance(n.ctx, (ast.Store, ast.Del))]
        ok = not bad and not attrs and not stores
        chk.check(ok, 'ID-PURE', q, file=f, line=fn.lineno, func=q, expected='reads only its parameters and literal constants; writes nothing',
                  found={'names': bad, 'attributes': attrs, 'stores': [ast.unparse(x)[:40] for x in stores]} if not ok else 'pure',
                  detail='' if ok else 'state consulted by the header function (e.g. a cache) can make two different (PGN, source, destination, priority) tuples share one identifier')

def header_roundtrip(chk, program, tier):
    """ID-PARSE / ID-BUILD: by bit provenance on the extracted terms (_run); when the guard extractor or the provenance domain gives up on the
    spelling (lists, loops, value classes of another module), by interpreting both header functions (absint) for every value of the PF byte"""
    from .. import absint as A
    try:
        _run(chk, program, tier)
        return
    except (B.Top, B.NeedBranch) as t:
        why = f"bit provenance gave up: {t}"
    except AnalysisError as e:
        why = str(e)
    try:
        n = _run_interpreted(chk, program)
        chk.unit('header_functions_interpreted', n)
    except (A.Unknown, A.RaiseSignal, AttributeError, TypeError, KeyError, IndexError) as u:
        chk.unknown('ID-PARSE', 'header functions', f"{why} / not interpretable: {type(u).__name__}: {u}"[:300], DEC, 0)

def _run_interpreted(chk, program):
    """for each of the 256 values of the PF byte: build on (pgn with that PF, symbolic other bits; symbolic source, destination, priority), parse of the
    result, and parse on an identifier with that PF byte followed by build -- compared bit for bit with the layout"""
    from .. import absint as A
    pf_ = program.fn('decoder', 'NMEA2000Decoder._extract_header')
    bf_ = program.fn('encoder', 'NMEA2000Encoder._build_header')
    def interp(mod, cls):
        cdef = program.cls(mod, cls)
        methods = {n.name: n for n in cdef.body if isinstance(n, ast.FunctionDef)}
        funcs = {q: f for q, f in program.mod(mod).defs.items() if '.' not in q}
        return A.Interp(methods=methods, functions=funcs, module=A.ModuleEnv(program.mod(mod).tree))
    def call(it, fn, args):
        params = [a.arg for a in fn.args.args]
        if params and params[0] in ('self', 'cls'):
            args = [A.AObj()] + list(args)
        return it.call_function(fn, list(args))
    def vec_of(x, what):
        if isinstance(x, bool) or not isinstance(x, A.AInt):
            raise A.Unknown(f"{what} is not an integer the interpreter followed: {x!r}"[:120])
        v = x.vec()
        if v is None:
            raise A.Unknown(f"{what} has no bit vector")
        return B.trim(v)
    def bits(name, w, fixed=None):
        return [(fixed or {}).get(i, (name, i)) for i in range(w)]
    n_ob = 0
    roles = ['pgn', 'source', 'dest', 'priority']
    for pfv in range(256):
        pdu1 = pfv < 0xF0
        fixed = {8 + i: (pfv >> i) & 1 for i in range(8)}
        pgn_bits = bits('P', 18, fixed)
        args = [A.AInt(None, pgn_bits), A.AInt(None, bits('S', 8)), A.AInt(None, bits('D', 8)), A.AInt(None, bits('R', 3))]
        idv = vec_of(call(interp('encoder', 'NMEA2000Encoder'), bf_, args), 'the identifier')
        case = f"PF={pfv:#04x}"
        chk.check(len(idv) <= 29, 'ID-BUILD', f"build::{case}::29-bits", file=ENC, line=bf_.lineno, func='_build_header', expected='identifier fits 29 bits', found=len(idv), nontrivial=False)
        out = call(interp('decoder', 'NMEA2000Decoder'), pf_, [A.AInt(None, idv + [0] * (32 - len(idv)))])
        if isinstance(out, A.AObj) and '__fields__' in out.attrs:
            out = tuple(out.attrs[k] for k in out.attrs['__fields__'])
        if not (isinstance(out, (tuple, list)) and len(out) == 4):
            raise A.Unknown(f"_extract_header does not return four values: {out!r}"[:120])
        exp = {'priority': bits('R', 3), 'source': bits('S', 8), 'pgn': ([0] * 8 + pgn_bits[8:]) if pdu1 else pgn_bits, 'dest': bits('D', 8) if pdu1 else [1] * 8}
        for r, x in zip(roles, out):
            got = vec_of(x, f"{r} of _extract_header")
            n_ob += 1
            chk.check(got == B.trim(exp[r]), 'ID-PARSE', f"parse∘build::{case}::{r}", file=DEC, line=pf_.lineno, func='_extract_header', expected=B.show_vec(B.trim(exp[r])), found=B.show_vec(got),
                      detail=f"{'PDU1' if pdu1 else 'PDU2'} (PF {pfv:#04x}): identifier = {B.show_vec(idv)} (header functions interpreted)")
        # build o parse
        idbits = bits('id', 29, {16 + i: (pfv >> i) & 1 for i in range(8)})
        vs = call(interp('decoder', 'NMEA2000Decoder'), pf_, [A.AInt(None, idbits + [0, 0, 0])])
        if isinstance(vs, A.AObj) and '__fields__' in vs.attrs:
            vs = tuple(vs.attrs[k] for k in vs.attrs['__fields__'])
        rebuilt = vec_of(call(interp('encoder', 'NMEA2000Encoder'), bf_, list(vs)), 'the rebuilt identifier')
        n_ob += 1
        chk.check(rebuilt == B.trim(idbits), 'ID-BUILD', f"build∘parse::{case}::id[0:29]", file=ENC, line=bf_.lineno, func='_build_header', expected=B.show_vec(B.trim(idbits)), found=B.show_vec(rebuilt),
                  detail='the identifier rebuilt from the parsed values, bit for bit; nothing above bit 28 (header functions interpreted)')
    return n_ob

def _run(chk, program, tier):
    """Both header functions are evaluated per value of the PDU-format byte (the 8 bits their PF test consults; whatever
    bits their predicates consult are enumerated, see bitprov.cases), all other bits symbolic: 256 cases x per-bit
    provenance = every identifier / every (priority, source, destination, PGN)."""
    pf = program.fn('decoder', 'NMEA2000Decoder._extract_header')
    bf = program.fn('encoder', 'NMEA2000Encoder._build_header')
    pex, pret = _ret_terms(pf, program.module_consts('decoder'))
    bex, bret = _ret_terms(bf, program.module_consts('encoder'))
    idp = pex.params[0]
    bparams = bex.params           # pgn_id, source, dest, priority (by position)
    if len(bparams) != 4:
        raise AnalysisError('_build_header no longer takes 4 parameters')
    roles = ['pgn', 'source', 'dest', 'priority']
    P, S, D, R = bparams
    bw = {P: 18, S: 8, D: 8, R: 3}
    def tup4(v):
        if not (isinstance(v, tuple) and v[0] == 'tuple' and len(v[1]) == 4 and all(isinstance(x, list) for x in v[1])):
            raise AnalysisError('_extract_header no longer returns a 4-tuple (pgn, source, destination, priority)')
        return [B.trim(x) for x in v[1]]
    def vec(v):
        if not isinstance(v, list):
            raise AnalysisError('_build_header no longer returns an integer')
        return B.trim(v)
    try:
        bcases = B.cases(bret, bw, presplit=[(P, i) for i in range(8, 16)])
    except B.Overlap as t:
        chk.violation('ID-BUILD', 'header::fields-overlap', file=ENC, line=bf.lineno, func='_build_header/_extract_header', expected='every identifier bit carries one input bit',
                      found=str(t), detail='two inputs are packed into the same bit position: the identifier cannot be parsed back')
        return
    pcases = B.cases(pret, {idp: 32}, presplit=[(idp, i) for i in range(16, 24)])
    chk.unit('parse_cases', len(pcases)); chk.unit('build_cases', len(bcases))
    def show_case(fixed, name, lo):
        return f"PF={sum(fixed.get((name, lo + i), 0) << i for i in range(8)):#04x}" + (''.join(f",{n}[{k}]={v}" for (n, k), v in sorted(fixed.items()) if not (n == name and lo <= k < lo + 8)))
    # --- bits 29..31 never consulted
    bad = []
    for fixed, v in pcases:
        vs = tup4(v)
        if any(k >= 29 for (n, k) in fixed):
            bad.append(f"{show_case(fixed, idp, 16)}: a predicate consults identifier bit >= 29")
        for role, x in zip(roles, vs):
            if any(isinstance(b, tuple) and b[1] >= 29 for b in x):
                bad.append(f"{show_case(fixed, idp, 16)}: {role} = {B.show_vec(x)}")
    chk.check(not bad, 'ID-BUILD', 'parse::ignores-bits-29..31', file=DEC, line=pf.lineno, func='_extract_header', expected='no output bit and no predicate depends on identifier bits 29..31', found=bad[:3] or 'ok')
    chk.unit('parse_tables', [{'case': show_case(f, idp, 16), **{r: B.show_vec(x) for r, x in zip(roles, tup4(v))}} for f, v in pcases[:2] + pcases[-2:]])
    chk.unit('build_tables', [{'case': show_case(f, P, 8), 'id': B.show_vec(vec(v))} for f, v in bcases[:2] + bcases[-2:]])
    # --- parse o build
    n_ob = 0
    for bfixed, bv in bcases:
        idv = vec(bv)
        case = show_case(bfixed, P, 8)
        chk.check(len(idv) <= 29, 'ID-BUILD', f"build::{case}::29-bits", file=ENC, line=bf.lineno, func='_build_header', expected='identifier fits 29 bits', found=len(idv), nontrivial=False)
        pfv = sum(bfixed[(P, 8 + i)] << i for i in range(8))
        pdu1 = pfv < 0xF0
        inp = lambda name, w: [bfixed.get((name, i), (name, i)) for i in range(w)]
        exp = {'priority': inp(R, 3), 'source': inp(S, 8), 'pgn': ([0] * 8 + inp(P, 18)[8:]) if pdu1 else inp(P, 18), 'dest': inp(D, 8) if pdu1 else [1] * 8}
        try:
            sub = B.cases(pret, {idp: 32}, env={('param', idp): idv + [0] * (32 - len(idv))})
        except B.Top as t:
            chk.unknown('ID-PARSE', f"parse∘build::{case}", f"bit provenance gave up: {t}", DEC, pf.lineno)
            continue
        for sfixed, sv in sub:
            out = dict(zip(roles, tup4(sv)))
            for r in roles:
                e = B.trim([sfixed.get(b, b) if isinstance(b, tuple) else b for b in exp[r]])
                n_ob += 1
                chk.check(out[r] == e, 'ID-PARSE', f"parse∘build::{case}{''.join(f',{n}[{k}]={v}' for (n, k), v in sorted(sfixed.items()))}::{r}", file=DEC, line=pf.lineno, func='_extract_header',
                          expected=B.show_vec(e), found=B.show_vec(out[r]), detail=f"{'PDU1' if pdu1 else 'PDU2'} (PF {pfv:#04x}): identifier = {B.show_vec(idv)}")
    # --- build o parse
    for pfixed, pv in pcases:
        vs = tup4(pv)
        case = show_case(pfixed, idp, 16)
        env = {('param', P): vs[0], ('param', S): vs[1], ('param', D): vs[2], ('param', R): vs[3]}
        try:
            sub = B.cases(bret, {}, env=env)
        except B.Overlap as t:
            chk.violation('ID-BUILD', f"build∘parse::{case}::fields-overlap", file=ENC, line=bf.lineno, func='_build_header', expected='every identifier bit carries one input bit', found=str(t))
            continue
        except B.Top as t:
            chk.unknown('ID-BUILD', f"build∘parse::{case}", f"bit provenance gave up: {t}", ENC, bf.lineno)
            continue
        for sfixed, rv in sub:
            rebuilt = vec(rv)
            fx = dict(pfixed); fx.update(sfixed)
            want = B.trim([fx.get((idp, i), (idp, i)) for i in range(29)])
            n_ob += 1
            chk.check(rebuilt == want, 'ID-BUILD', f"build∘parse::{case}{''.join(f',{n}[{k}]={v}' for (n, k), v in sorted(sfixed.items()))}::id[0:29]", file=ENC, line=bf.lineno, func='_build_header',
                      expected=B.show_vec(want), found=B.show_vec(rebuilt), detail='the identifier rebuilt from the parsed values, bit for bit; nothing above bit 28')
    chk.unit('bit_vector_obligations', n_ob)
    chk.floor('bit_vector_obligations', n_ob, 1200)

def _is_pdu1(assume):
    # the branch on which the predicate "PF < 0xF0" holds
    for c, val in assume.items():
        if c[0] == 'cmp' and c[1] == '<' and sym.is_const(c[3]) and c[3][1] == 0xF0:
            return val
        if c[0] == 'cmp' and c[1] == '>=' and sym.is_const(c[3]) and c[3][1] == 0xF0:
            return not val
    raise AnalysisError('PDU1/PDU2 predicate not recognised: ' + ', '.join(sym.show(c) for c in assume))

def _br(assume):
    return ','.join(f"{sym.show(c)}={v}" for c, v in assume.items()) or 'unconditional'

def _s(p):
    return f"{B.show_vec(p[1])} {p[0]} {p[2]}"

def actisense(chk, program):
    ef = program.fn('encoder', 'NMEA2000Encoder.encode_actisense')
    df = program.fn('decoder', 'NMEA2000Decoder.decode_actisense_string')
    eex = sym.SymExec(ef)
    try:
        eex.run()
    except sym.Unsupported as u:
        raise AnalysisError(str(u))
    dex = sym.SymExec(df)
    try:
        dex.run()
    except sym.Unsupported as u:
        raise AnalysisError(str(u))
    # the header integer on the encode side: the value formatted into the first token
    M = ('param', eex.params[1])
    fields = {'priority': ('attr', M, 'priority'), 'destination': ('attr', M, 'destination'), 'source': ('attr', M, 'source')}
    env = {v: [(k, i) for i in range({'priority': 3, 'destination': 8, 'source': 8}[k])] for k, v in fields.items()}
    nterm = eex.state.env.get('n')
    if nterm is None:
        raise AnalysisError("encode_actisense: header integer `n` not found")
    try:
        nvec = B.trim(B.bits(nterm, {}, env=env))
    except B.Overlap as t:
        chk.violation('ID-ACT', 'encode_actisense::fields-overlap', file=ENC, line=ef.lineno, func='encode_actisense', expected='source, destination and priority occupy disjoint bits of the header',
                      found=str(t), detail='two header fields share a bit: the reader cannot separate them')
        return
    except (B.Top, B.NeedBranch) as t:
        chk.unknown('ID-ACT', 'encode_actisense', f"bit provenance gave up: {t}", ENC, ef.lineno)
        return
    chk.unit('actisense_header', B.show_vec(nvec))
    # decode side: outputs priority/dest/src over the parsed integer
    nin = None
    for name in ('n',):
        nin = dex.state.env.get(name)
    if nin is None:
        raise AnalysisError("decode_actisense_string: header integer `n` not found")
    denv = {nin: [('n', i) for i in range(24)]}
    # the arguments handed to _decode
    rets = [e for e in dex.events if e[0] == 'return' and e[2][0] == 'call' and e[2][1] == ('attr', ('param', dex.params[0]), '_decode')]
    if len(rets) != 1:
        raise AnalysisError('decode_actisense_string: single `return self._decode(...)` not found')
    args = rets[0][2][2]
    roles = {'priority': args[1], 'source': args[2], 'destination': args[3]}
    for r, t in roles.items():
        try:
            v = B.trim(B.bits(t, {}, env=denv))
        except (B.Top, B.NeedBranch) as e:
            chk.unknown('ID-ACT', f"decode::{r}", str(e), DEC, df.lineno)
            continue
        out = B.substitute(v, {'n': nvec})
        w = {'priority': 3, 'destination': 8, 'source': 8}[r]
        for bit in range(max(w, len(out))):
            y = out[bit] if bit < len(out) else 0
            x = (r, bit) if bit < w else 0
            chk.check(x == y, 'ID-ACT', f"parse∘build::{r}[{bit}]", file=DEC, line=df.lineno, func='decode_actisense_string', expected=str(x), found=str(y),
                      detail=f"header = {B.show_vec(nvec)}")
    # radix: formatted with X, parsed with base 16
    fmt = [n for n in ast.walk(ef) if isinstance(n, ast.FormattedValue) and isinstance(n.value, ast.Name) and n.value.id == 'n']
    spec = ast.unparse(fmt[0].format_spec) if fmt and fmt[0].format_spec is not None else None
    chk.check(spec is not None and spec.strip("f'\"").upper().endswith('X'), 'ID-ACT', 'radix::encode', file=ENC, line=ef.lineno, func='encode_actisense', expected='hexadecimal format', found=spec)
    chk.check(nin[0] == 'call' and nin[1] == ('name', 'int') and len(nin[2]) == 2 and nin[2][1] == C(16), 'ID-ACT', 'radix::decode', file=DEC, line=df.lineno,
              func='decode_actisense_string', expected='int(token, 16)', found=sym.show(nin))

def id_use(chk, program):
    """every frame-level writer obtains the identifier from _build_header(PGN, source, destination, priority) of the message being
    written, in those roles, afresh for each message (no state between messages)"""
    from .. import wire as Wr, absint as Ab
    # no identifier (or anything else) is kept on the encoder between messages: an attribute written and read after construction is state (C02's ENC-STATE clause)
    from .. import rules_enc as _RE
    _RE.enc_state_attrs(chk, program, 'ID-USE')
    want = [('pgn', 18), ('src', 8), ('dst', 8), ('prio', 3)]
    for meth in ('encode_ebyte', 'encode_usb', 'encode_yacht_devices'):
        fn = program.fn('encoder', f"NMEA2000Encoder.{meth}")
        direct = [n for n in ast.walk(fn) if isinstance(n, ast.Call) and isinstance(n.func, ast.Attribute) and n.func.attr == '_build_header']
        try:
            res, rec = Wr.encode_with(program, meth, [Wr.frame_bytes(8)])
        except (Ab.Unknown, Ab.RaiseSignal) as u:
            if 'abstract value' in str(u):
                # the writer tests the addressing values themselves (`x or default`, a range test): decided on two concrete addressings, the
                # all-zero one (source 0, destination 0, priority 0 are legal) and one without zeros
                worlds = []
                try:
                    for nm, (s_, d_, p_) in (('all-zero', (0, 0, 0)), ('no-zero', (0x21, 0x42, 5))):
                        m_ = Wr.make_message()
                        m_.attrs.update(source=Ab.AInt(s_), destination=Ab.AInt(d_), priority=Ab.AInt(p_))
                        _, rec_ = Wr.encode_with(program, meth, [Wr.frame_bytes(8)], message=m_)
                        worlds.append((nm, (s_, d_, p_), rec_.header_arg))
                except (Ab.Unknown, Ab.RaiseSignal) as u2:
                    chk.unknown('ID-USE', meth, f"writer not interpretable: {u}; on concrete addressing: {u2}", ENC, fn.lineno)
                    continue
                if any(a is None for _, _, a in worlds):
                    chk.unknown('ID-USE', f"{meth}::identifier-of-this-message", 'the writer never calls _build_header: the identifier is built some other way, which this clause does not read', ENC, fn.lineno)
                    continue
                bad = []
                for nm, (s_, d_, p_), a in worlds:
                    got = [x.v if isinstance(x, Ab.AInt) else repr(x) for x in a[1:4]] if len(a) == 4 else repr(a)
                    if got != [s_, d_, p_] or not (isinstance(a[0], Ab.AInt) and a[0].vec() is not None and B.trim(a[0].vec()) == [('pgn', k) for k in range(18)]):
                        bad.append(f"{nm} addressing (source {s_}, destination {d_}, priority {p_}): _build_header receives {got}")
                chk.check(not bad, 'ID-USE', f"{meth}::identifier-of-this-message", file=ENC, line=fn.lineno, func=meth,
                          expected='_build_header(message.PGN, message.source, message.destination, message.priority), also when one of them is 0', found='ok (two concrete addressings)' if not bad else bad,
                          detail='' if not bad else 'a legal address or priority 0 is replaced by a default')
                continue
            chk.unknown('ID-USE', meth, f"writer not interpretable: {u}", ENC, fn.lineno)
            continue
        if len(direct) == 1:
            chk.check(True, 'ID-USE', f"{meth}::built-afresh", file=ENC, line=fn.lineno, func=meth, expected='the writer itself calls _build_header once per message', found='1 direct call')
        else:
            # the identifier comes through helpers: the writer was interpreted on an encoder object with no state but the sequence counter (a helper
            # reading a cache is not interpretable there); the helpers must not be wrapped (a memoising decorator is invisible to the interpreter)
            ecls = program.cls('encoder', 'NMEA2000Encoder')
            wrapped = [n.name for n in ecls.body if isinstance(n, (ast.FunctionDef, ast.AsyncFunctionDef))
                       and any(ast.unparse(d) not in ('staticmethod', 'classmethod') for d in n.decorator_list)]
            if wrapped:
                chk.unknown('ID-USE', f"{meth}::built-afresh", f"no direct call of _build_header and decorated methods in the class: {wrapped}", ENC, fn.lineno)
            else:
                chk.check(rec.header_calls == 1, 'ID-USE', f"{meth}::built-afresh", file=ENC, line=fn.lineno, func=meth,
                          expected='_build_header called once while one message is written (interpreted on an encoder without cached state)',
                          found=f"{rec.header_calls} calls", detail='' if rec.header_calls == 1 else 'the identifier written is not the one built for this message')
        args = rec.header_arg
        if args is None:
            # the writer does not go through _build_header at all: which identifier it writes is decided by ID-BYTES (writer -> reader, bit for bit)
            chk.unknown('ID-USE', f"{meth}::identifier-of-this-message", 'the writer never calls _build_header: the identifier is built some other way, which this clause does not read', ENC, fn.lineno)
            continue
        ok = args is not None and len(args) == 4 and all(isinstance(a, Ab.AInt) and a.vec() is not None and B.trim(a.vec()) == [(n, k) for k in range(w)] for a, (n, w) in zip(args, want))
        chk.check(ok, 'ID-USE', f"{meth}::identifier-of-this-message", file=ENC, line=fn.lineno, func=meth,
                  expected='_build_header(message.PGN, message.source, message.destination, message.priority)', found=[repr(a) for a in args] if args else 'no call of _build_header')

def id_bytes_composition(chk, program):
    """[ID-BYTES] by composition: each frame-level writer is interpreted on an abstract frame whose identifier is id[0:29]; its packet goes
    through the matching reader; the integer the reader hands to _extract_header must be id[0:29] bit for bit (any byte order, any spelling)"""
    from .. import wire as Wr, absint as Ab
    for en, dn in (('encode_ebyte', 'decode_tcp'), ('encode_usb', 'decode_usb'), ('encode_yacht_devices', 'decode_yacht_devices_string')):
        try:
            res, rec = Wr.encode_with(program, en, [Wr.frame_bytes(8)])
            pk = res.items[0]
            if dn == 'decode_yacht_devices_string':
                if not isinstance(pk, Ab.AStr):
                    raise Ab.Unknown('the writer does not return text')
                body = Ab.AStr([('lit', '12:00:00.000 R ')] + list(pk.pieces))
                pk = Ab.Interp().call(ast.parse('x.strip()').body[0].value, {'x': body})
            r = Wr.decode_with(program, dn, pk)
        except (Ab.Unknown, Ab.RaiseSignal, AttributeError, IndexError) as u:
            chk.unknown('ID-BYTES', f"{en}/{dn}", f"not interpretable: {u}", DEC, 0)
            continue
        Wr.judge_int(chk, r.header_arg, Wr.ID_BITS, 'ID-BYTES', f"{en}/{dn}::identifier-through-the-wire", file=DEC, line=program.fn('decoder', f"NMEA2000Decoder.{dn}").lineno, func=dn,
                  expected='_extract_header receives id[0:29] bit for bit', found=repr(r.header_arg),
                  detail='writer and reader disagree on the position or the byte order of the 4 identifier bytes' if not Wr.int_matches(r.header_arg, Wr.ID_BITS) else '')

def _byteorder_of(call):
    for k in call.keywords:
        if k.arg == 'byteorder' and isinstance(k.value, ast.Constant):
            return k.value.value
    if len(call.args) >= 2 and isinstance(call.args[1], ast.Constant):
        return call.args[1].value
    return None

def id_bytes(chk, program):
    pairs = [('encode_ebyte', 'decode_tcp'), ('encode_usb', 'decode_usb'), ('encode_yacht_devices', 'decode_yacht_devices_string')]
    for en, dn in pairs:
        ef = program.fn('encoder', f"NMEA2000Encoder.{en}")
        df = program.fn('decoder', f"NMEA2000Decoder.{dn}")
        eo = [(_byteorder_of(n), n) for n in ast.walk(ef) if isinstance(n, ast.Call) and isinstance(n.func, ast.Attribute) and n.func.attr == 'to_bytes']
        do = [(_byteorder_of(n), n) for n in ast.walk(df) if isinstance(n, ast.Call) and isinstance(n.func, ast.Attribute) and n.func.attr == 'from_bytes']
        if do:
            okk = len(eo) == 1 and len(do) == 1 and eo[0][0] == do[0][0] and eo[0][0] in ('big', 'little')
            chk.check(okk, 'ID-BYTES', f"{en}/{dn}", file=DEC, line=do[0][1].lineno, expected={'writer': eo[0][0] if eo else None}, found={'reader': do[0][0]},
                      detail='identifier bytes: to_bytes(4, order) vs int.from_bytes(slice, order)')
            w = eo[0][1].args[0] if eo and eo[0][1].args else None
            chk.check(isinstance(w, ast.Constant) and w.value == 4, 'ID-BYTES', f"{en}::width", file=ENC, line=eo[0][1].lineno if eo else ef.lineno, expected=4, found=ast.unparse(w) if w else None, nontrivial=False)
        else:
            # text reader: int(token, 16) reads the hex string most-significant digit first = big endian bytes
            ints = [n for n in ast.walk(df) if isinstance(n, ast.Call) and isinstance(n.func, ast.Name) and n.func.id == 'int' and len(n.args) == 2 and isinstance(n.args[1], ast.Constant) and n.args[1].value == 16]
            okk = len(eo) == 1 and eo[0][0] == 'big' and bool(ints)
            chk.check(okk, 'ID-BYTES', f"{en}/{dn}", file=DEC, line=df.lineno, expected={'writer': 'big (hex text, most significant byte first)'}, found={'writer': eo[0][0] if eo else None, 'reader': 'int(token,16)' if ints else None})
