"""C05 -- CAN identifier packing and parsing are mutually inverse (PDU1/PDU2 aware)."""
import ast

from .. import sym, bitprov as B
from ..sym import C
from ..model import AnalysisError

LEVEL = 'proof'
EXPLANATION = (
    "Proof by bit provenance (bitprov.py), no value enumeration. _build_header is evaluated over inputs priority:3, source:8, dest:8, PGN:18 bits and "
    "_extract_header over a 32-bit identifier, per branch of their PF<0xF0 predicates, giving for every output bit the input bit it carries. "
    "[ID-PARSE/ID-BUILD] (1) after substituting the builder's bits into the parser, the parser's predicate has the same provenance as the builder's, so "
    "branches pair; (2) parse(build(x)) returns priority, source, PGN bit for bit (PDU1: PGN with PS cleared, i.e. the PGN itself in canonical form) and "
    "dest for PDU1 / the constant 255 for PDU2; (3) build(parse(id)) reproduces all 29 identifier bits in both branches and bits 29..31 are never "
    "consulted. [ID-ACT] same for the Actisense header integer. [ID-BYTES] each writer/reader pair uses the same byte order for the 4 identifier bytes. [ID-USE] each frame-level writer calls _build_header itself, once per message, with the message's own PGN/source/destination/priority in those roles (interpreted over the provenance domain). "
    "Each obligation is per bit, hence exhaustive over all 2^29 identifiers. Nothing undecided inside the property's quantifier; out-of-range arguments "
    "(dest > 255, PGN > 18 bits) are outside it."
)
ASSUMPTIONS = ["CPython ast parser", "bitprov.py transfer functions for & | << >> on non-negative ints", "sym.py def-use substitution",
               "inputs are within their declared widths (priority 3, source 8, dest 8, PGN 18 bits)"]
DEC = 'nmea2000/decoder.py'
ENC = 'nmea2000/encoder.py'

def _ret_terms(fn, consts=None):
    ex = sym.SymExec(fn, consts=consts)
    try:
        ex.run()
    except sym.Unsupported as u:
        raise AnalysisError(f"{fn.name}: {u}")
    rets = [e for e in ex.events if e[0] == 'return']
    if not rets:
        raise AnalysisError(f"{fn.name}: no return")
    # several guarded returns are merged into one ite term (first matching return wins)
    result = rets[-1][2]
    for e in reversed(rets[:-1]):
        g = e[1]
        cond = g[0] if len(g) == 1 else ('bool', 'and', tuple(g))
        result = sym.mk_ite(cond, e[2], result)
    return ex, result

def run(chk, program, tier):
    for r, t in (('ID-PARSE', 'parse(build(x)) = x per bit and per branch'), ('ID-BUILD', 'build(parse(id)) = id on all 29 bits; bits 29..31 unused'),
                 ('ID-ACT', 'Actisense header integer build/parse inverse'), ('ID-BYTES', 'byte order of the identifier agrees between writer and reader of each format'),
                 ('ID-USE', 'each writer builds the identifier of the message it writes, afresh'), ('ID-PURE', 'the header functions depend on their arguments only')):
        chk.rule(r, t)
    id_pure(chk, program)
    try:
        _run(chk, program, tier)
    except (B.Top, B.NeedBranch) as t:
        chk.unknown('ID-PARSE', 'header functions', f"bit provenance gave up: {t}", DEC, 0)
    except AnalysisError as e:
        chk.unknown('ID-PARSE', 'header functions', str(e), DEC, 0)
    for part in (actisense, id_bytes, id_use):
        try:
            part(chk, program)
        except (B.Top, B.NeedBranch, AnalysisError) as t:
            chk.unknown('ID-ACT', part.__name__, str(t), DEC, 0)

def id_pure(chk, program):
    """_build_header / _extract_header are functions of their arguments: they read no instance, class or module state (a cache keyed by part of the
    arguments would make the identifier of one message depend on earlier ones)"""
    import builtins
    for mod, q, f in (('encoder', 'NMEA2000Encoder._build_header', ENC), ('decoder', 'NMEA2000Decoder._extract_header', DEC)):
        fn = program.fn(mod, q)
        consts = program.module_consts(mod)
        params = {a.arg for a in fn.args.args}
        body = ast.Module(body=fn.body, type_ignores=[])       # the body only: annotations are not behaviour
        local = {n.id for n in ast.walk(body) if isinstance(n, ast.Name) and isinstance(n.ctx, ast.Store)}
        bad = sorted({n.id for n in ast.walk(body) if isinstance(n, ast.Name) and isinstance(n.ctx, ast.Load) and n.id not in params | local and n.id not in consts and not hasattr(builtins, n.id)})
        attrs = sorted({ast.unparse(n) for n in ast.walk(body) if isinstance(n, ast.Attribute) and isinstance(n.value, ast.Name) and n.value.id in ('self', 'cls', 'NMEA2000Encoder', 'NMEA2000Decoder')})
        stores = [n for n in ast.walk(body) if isinstance(n, (ast.Subscript, ast.Attribute)) and isinstance(n.ctx, (ast.Store, ast.Del))]
        ok = not bad and not attrs and not stores
        chk.check(ok, 'ID-PURE', q, file=f, line=fn.lineno, func=q, expected='reads only its parameters and literal constants; writes nothing',
                  found={'names': bad, 'attributes': attrs, 'stores': [ast.unparse(x)[:40] for x in stores]} if not ok else 'pure',
                  detail='' if ok else 'state consulted by the header function (e.g. a cache) can make two different (PGN, source, destination, priority) tuples share one identifier')

def _run(chk, program, tier):
    pf = program.fn('decoder', 'NMEA2000Decoder._extract_header')
    bf = program.fn('encoder', 'NMEA2000Encoder._build_header')
    pex, pret = _ret_terms(pf, program.module_consts('decoder'))
    bex, bret = _ret_terms(bf, program.module_consts('encoder'))
    if pret[0] != 'tuple' or len(pret[1]) != 4:
        raise AnalysisError('_extract_header no longer returns a 4-tuple')
    idp = pex.params[0]
    bparams = bex.params           # pgn_id, source, dest, priority (by position)
    if len(bparams) != 4:
        raise AnalysisError('_build_header no longer takes 4 parameters')
    # roles by the order documented in the two signatures: parse returns (pgn, source, dest, priority); build takes (pgn, source, dest, priority)
    roles = ['pgn', 'source', 'dest', 'priority']
    bw = {bparams[0]: 18, bparams[1]: 8, bparams[2]: 8, bparams[3]: 3}
    try:
        pbr = B.branches(list(pret[1]), {idp: 32})
        bbr = B.branches([bret], bw)
    except B.Overlap as t:
        chk.violation('ID-BUILD', 'header::fields-overlap', file=ENC, line=bf.lineno, func='_build_header/_extract_header', expected='every identifier bit carries one input bit',
                      found=str(t), detail='two inputs are packed into the same bit position: the identifier cannot be parsed back')
        return
    except B.Top as t:
        chk.unknown('ID-PARSE', 'header functions', f"bit provenance gave up: {t}", DEC, pf.lineno)
        return
    chk.unit('parse_branches', len(pbr)); chk.unit('build_branches', len(bbr))
    samples = []
    # --- bits 29..31 never consulted
    for assume, vs in pbr:
        for role, v in zip(roles, vs):
            used = [b for b in v if isinstance(b, tuple) and b[1] >= 29]
            chk.check(not used, 'ID-BUILD', f"parse::{_br(assume)}::{role}::ignores-bits-29..31", file=DEC, line=pf.lineno, func='_extract_header',
                      expected='no output bit depends on identifier bits 29..31', found=B.show_vec(v))
        samples.append({'branch': _br(assume), **{r: B.show_vec(v) for r, v in zip(roles, vs)}})
        for c, val in assume.items():
            try:
                pp = B.pred_prov(c, {idp: 32})
                chk.check(all((not isinstance(b, tuple)) or b[1] < 29 for b in pp[1]), 'ID-BUILD', f"parse::{_br(assume)}::predicate-ignores-bits-29..31",
                          file=DEC, line=pf.lineno, func='_extract_header', expected='predicate over identifier bits < 29', found=B.show_vec(pp[1]), nontrivial=False)
            except B.Top as t:
                chk.unknown('ID-PARSE', 'predicate', str(t), DEC, pf.lineno)
    chk.unit('parse_tables', samples)
    chk.unit('build_tables', [{'branch': _br(a), 'id': B.show_vec(v[0])} for a, v in bbr])
    # --- parse o build
    for bass, bvs in bbr:
        idv = bvs[0]
        chk.check(len(idv) <= 29, 'ID-BUILD', f"build::{_br(bass)}::29-bits", file=ENC, line=bf.lineno, func='_build_header', expected='identifier fits 29 bits', found=len(idv))
        bpreds = {c: (B.pred_prov(c, bw), val) for c, val in bass.items()}
        paired = None
        for pass_, pvs in pbr:
            # substitute builder bits into the parser's predicate(s): must equal the builder's predicate with the same truth value
            okpair = True
            for c, val in pass_.items():
                op, vec, k = B.pred_prov(c, {idp: 32})
                sv = tuple(B.substitute(vec, {idp: idv}))
                match = [bv for (bop, bvec, bk), bv in bpreds.values() if (bop, tuple(B.trim(bvec)), bk) == (op, sv, k)]
                if not match or match[0] != val:
                    okpair = False
            if okpair:
                paired = (pass_, pvs)
        inst = f"parse∘build::{_br(bass)}"
        if paired is None:
            chk.violation('ID-PARSE', f"{inst}::branch-pairing", file=DEC, line=pf.lineno, func='_extract_header',
                          expected='parser predicate, with the builder bits substituted, has the provenance of the builder predicate (PDU1/PDU2 decided alike)',
                          found={'build': [(_s(p[0])) for p in bpreds.values()], 'parse': [[_s(B.pred_prov(c, {idp: 32})) for c in a] for a, _ in pbr]})
            continue
        chk.ok('ID-PARSE', f"{inst}::branch-pairing", file=DEC, line=pf.lineno, func='_extract_header', found=[_s(p[0]) for p in bpreds.values()])
        pass_, pvs = paired
        out = {r: B.substitute(v, {idp: idv}) for r, v in zip(roles, pvs)}
        pdu1 = _is_pdu1(pass_)
        exp = {
            'priority': [(bparams[3], i) for i in range(3)],
            'source': [(bparams[1], i) for i in range(8)],
            'pgn': ([0] * 8 + [(bparams[0], i) for i in range(8, 18)]) if pdu1 else [(bparams[0], i) for i in range(18)],
            'dest': [(bparams[2], i) for i in range(8)] if pdu1 else [1] * 8,
        }
        for r in roles:
            e = B.trim(exp[r])
            for bit in range(max(len(e), len(out[r]))):
                x = e[bit] if bit < len(e) else 0
                y = out[r][bit] if bit < len(out[r]) else 0
                chk.check(x == y, 'ID-PARSE', f"{inst}::{r}[{bit}]", file=DEC, line=pf.lineno, func='_extract_header', expected=str(x), found=str(y),
                          detail=f"{'PDU1' if pdu1 else 'PDU2'}: {r} = {B.show_vec(e)}")
    # --- build o parse
    for pass_, pvs in pbr:
        mapping = {bparams[0]: pvs[0], bparams[1]: pvs[1], bparams[2]: pvs[2], bparams[3]: pvs[3]}
        paired = None
        for bass, bvs in bbr:
            okpair = True
            for c, val in bass.items():
                op, vec, k = B.pred_prov(c, bw)
                sv = tuple(B.substitute(vec, mapping))
                match = [pv for pc, pv in pass_.items() if (lambda q: (q[0], tuple(B.trim(q[1])), q[2]))(B.pred_prov(pc, {idp: 32})) == (op, sv, k)]
                if not match or match[0] != val:
                    okpair = False
            if okpair:
                paired = (bass, bvs)
        inst = f"build∘parse::{_br(pass_)}"
        if paired is None:
            chk.violation('ID-BUILD', f"{inst}::branch-pairing", file=ENC, line=bf.lineno, func='_build_header', expected='builder predicate pairs with the parser predicate', found='no pairing')
            continue
        chk.ok('ID-BUILD', f"{inst}::branch-pairing", file=ENC, line=bf.lineno, func='_build_header')
        rebuilt = B.substitute(paired[1][0], mapping)
        for bit in range(29):
            y = rebuilt[bit] if bit < len(rebuilt) else 0
            chk.check(y == (idp, bit), 'ID-BUILD', f"{inst}::id[{bit}]", file=ENC, line=bf.lineno, func='_build_header', expected=f"{idp}[{bit}]", found=str(y))
        chk.check(len(rebuilt) <= 29, 'ID-BUILD', f"{inst}::no-bits-above-28", file=ENC, line=bf.lineno, func='_build_header', expected='<= 29 bits', found=len(rebuilt))
    chk.floor('bit_obligations', len(chk.obs), 150)

def _is_pdu1(assume):
    # the branch on which the predicate "PF < 0xF0" holds
    for c, val in assume.items():
        if c[0] == 'cmp' and c[1] == '<' and sym.is_const(c[3]) and c[3][1] == 0xF0:
            return val
        if c[0] == 'cmp' and c[1] == '>=' and sym.is_const(c[3]) and c[3][1] == 0xF0:
            return not val
    raise AnalysisError('PDU1/PDU2 predicate not recognised: ' + ', '.join(sym.show(c) for c in assume))

def _br(assume):
    return ','.join(f"{sym.show(c)}={v}" for c, v in assume.items()) or 'unconditional'

def _s(p):
    return f"{B.show_vec(p[1])} {p[0]} {p[2]}"

def actisense(chk, program):
    ef = program.fn('encoder', 'NMEA2000Encoder.encode_actisense')
    df = program.fn('decoder', 'NMEA2000Decoder.decode_actisense_string')
    eex = sym.SymExec(ef)
    try:
        eex.run()
    except sym.Unsupported as u:
        raise AnalysisError(str(u))
    dex = sym.SymExec(df)
    try:
        dex.run()
    except sym.Unsupported as u:
        raise AnalysisError(str(u))
    # the header integer on the encode side: the value formatted into the first token
    M = ('param', eex.params[1])
    fields = {'priority': ('attr', M, 'priority'), 'destination': ('attr', M, 'destination'), 'source': ('attr', M, 'source')}
    env = {v: [(k, i) for i in range({'priority': 3, 'destination': 8, 'source': 8}[k])] for k, v in fields.items()}
    nterm = eex.state.env.get('n')
    if nterm is None:
        raise AnalysisError("encode_actisense: header integer `n` not found")
    try:
        nvec = B.trim(B.bits(nterm, {}, env=env))
    except B.Overlap as t:
        chk.violation('ID-ACT', 'encode_actisense::fields-overlap', file=ENC, line=ef.lineno, func='encode_actisense', expected='source, destination and priority occupy disjoint bits of the header',
                      found=str(t), detail='two header fields share a bit: the reader cannot separate them')
        return
    except (B.Top, B.NeedBranch) as t:
        chk.unknown('ID-ACT', 'encode_actisense', f"bit provenance gave up: {t}", ENC, ef.lineno)
        return
    chk.unit('actisense_header', B.show_vec(nvec))
    # decode side: outputs priority/dest/src over the parsed integer
    nin = None
    for name in ('n',):
        nin = dex.state.env.get(name)
    if nin is None:
        raise AnalysisError("decode_actisense_string: header integer `n` not found")
    denv = {nin: [('n', i) for i in range(24)]}
    # the arguments handed to _decode
    rets = [e for e in dex.events if e[0] == 'return' and e[2][0] == 'call' and e[2][1] == ('attr', ('param', dex.params[0]), '_decode')]
    if len(rets) != 1:
        raise AnalysisError('decode_actisense_string: single `return self._decode(...)` not found')
    args = rets[0][2][2]
    roles = {'priority': args[1], 'source': args[2], 'destination': args[3]}
    for r, t in roles.items():
        try:
            v = B.trim(B.bits(t, {}, env=denv))
        except (B.Top, B.NeedBranch) as e:
            chk.unknown('ID-ACT', f"decode::{r}", str(e), DEC, df.lineno)
            continue
        out = B.substitute(v, {'n': nvec})
        w = {'priority': 3, 'destination': 8, 'source': 8}[r]
        for bit in range(max(w, len(out))):
            y = out[bit] if bit < len(out) else 0
            x = (r, bit) if bit < w else 0
            chk.check(x == y, 'ID-ACT', f"parse∘build::{r}[{bit}]", file=DEC, line=df.lineno, func='decode_actisense_string', expected=str(x), found=str(y),
                      detail=f"header = {B.show_vec(nvec)}")
    # radix: formatted with X, parsed with base 16
    fmt = [n for n in ast.walk(ef) if isinstance(n, ast.FormattedValue) and isinstance(n.value, ast.Name) and n.value.id == 'n']
    spec = ast.unparse(fmt[0].format_spec) if fmt and fmt[0].format_spec is not None else None
    chk.check(spec is not None and spec.strip("f'\"").upper().endswith('X'), 'ID-ACT', 'radix::encode', file=ENC, line=ef.lineno, func='encode_actisense', expected='hexadecimal format', found=spec)
    chk.check(nin[0] == 'call' and nin[1] == ('name', 'int') and len(nin[2]) == 2 and nin[2][1] == C(16), 'ID-ACT', 'radix::decode', file=DEC, line=df.lineno,
              func='decode_actisense_string', expected='int(token, 16)', found=sym.show(nin))

def id_use(chk, program):
    """every frame-level writer obtains the identifier from _build_header(PGN, source, destination, priority) of the message being
    written, in those roles, afresh for each message (no state between messages)"""
    from .. import wire as Wr, absint as Ab
    want = [('pgn', 18), ('src', 8), ('dst', 8), ('prio', 3)]
    for meth in ('encode_ebyte', 'encode_usb', 'encode_yacht_devices'):
        fn = program.fn('encoder', f"NMEA2000Encoder.{meth}")
        direct = [n for n in ast.walk(fn) if isinstance(n, ast.Call) and isinstance(n.func, ast.Attribute) and n.func.attr == '_build_header']
        chk.check(len(direct) == 1, 'ID-USE', f"{meth}::built-afresh", file=ENC, line=fn.lineno, func=meth,
                  expected='the writer itself calls _build_header once per message', found=f"{len(direct)} direct calls",
                  detail='' if len(direct) == 1 else 'an identifier obtained through another function may be cached across messages (e.g. keyed without the destination)')
        try:
            res, rec = Wr.encode_with(program, meth, [Wr.frame_bytes(8)])
        except (Ab.Unknown, Ab.RaiseSignal) as u:
            chk.unknown('ID-USE', meth, f"writer not interpretable: {u}", ENC, fn.lineno)
            continue
        args = rec.header_arg
        ok = args is not None and len(args) == 4 and all(isinstance(a, Ab.AInt) and a.vec() is not None and B.trim(a.vec()) == [(n, k) for k in range(w)] for a, (n, w) in zip(args, want))
        chk.check(ok, 'ID-USE', f"{meth}::identifier-of-this-message", file=ENC, line=fn.lineno, func=meth,
                  expected='_build_header(message.PGN, message.source, message.destination, message.priority)', found=[repr(a) for a in args] if args else 'no call of _build_header')

def _byteorder_of(call):
    for k in call.keywords:
        if k.arg == 'byteorder' and isinstance(k.value, ast.Constant):
            return k.value.value
    if len(call.args) >= 2 and isinstance(call.args[1], ast.Constant):
        return call.args[1].value
    return None

def id_bytes(chk, program):
    pairs = [('encode_ebyte', 'decode_tcp'), ('encode_usb', 'decode_usb'), ('encode_yacht_devices', 'decode_yacht_devices_string')]
    for en, dn in pairs:
        ef = program.fn('encoder', f"NMEA2000Encoder.{en}")
        df = program.fn('decoder', f"NMEA2000Decoder.{dn}")
        eo = [(_byteorder_of(n), n) for n in ast.walk(ef) if isinstance(n, ast.Call) and isinstance(n.func, ast.Attribute) and n.func.attr == 'to_bytes']
        do = [(_byteorder_of(n), n) for n in ast.walk(df) if isinstance(n, ast.Call) and isinstance(n.func, ast.Attribute) and n.func.attr == 'from_bytes']
        if do:
            okk = len(eo) == 1 and len(do) == 1 and eo[0][0] == do[0][0] and eo[0][0] in ('big', 'little')
            chk.check(okk, 'ID-BYTES', f"{en}/{dn}", file=DEC, line=do[0][1].lineno, expected={'writer': eo[0][0] if eo else None}, found={'reader': do[0][0]},
                      detail='identifier bytes: to_bytes(4, order) vs int.from_bytes(slice, order)')
            w = eo[0][1].args[0] if eo and eo[0][1].args else None
            chk.check(isinstance(w, ast.Constant) and w.value == 4, 'ID-BYTES', f"{en}::width", file=ENC, line=eo[0][1].lineno if eo else ef.lineno, expected=4, found=ast.unparse(w) if w else None, nontrivial=False)
        else:
            # text reader: int(token, 16) reads the hex string most-significant digit first = big endian bytes
            ints = [n for n in ast.walk(df) if isinstance(n, ast.Call) and isinstance(n.func, ast.Name) and n.func.id == 'int' and len(n.args) == 2 and isinstance(n.args[1], ast.Constant) and n.args[1].value == 16]
            okk = len(eo) == 1 and eo[0][0] == 'big' and bool(ints)
            chk.check(okk, 'ID-BYTES', f"{en}/{dn}", file=DEC, line=df.lineno, expected={'writer': 'big (hex text, most significant byte first)'}, found={'writer': eo[0][0] if eo else None, 'reader': 'int(token,16)' if ints else None})
