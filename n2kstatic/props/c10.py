"""C10 -- PGN include/exclude filters are a pure selection of the unfiltered output."""
import ast
from .. import rules_filter as F, sym
from ..sym import show

LEVEL = 'other'
DEC = 'nmea2000/decoder.py'
EXPLANATION = (
    "Decision-table extraction, exhaustive over the atom space. The guards of every `return None` of NMEA2000Decoder._decode and "
    "_call_decode_function (sym.py, program order) are evaluated (teval.py: terms only, no repository code) over models of the constructor's lists: "
    "every list of up to two entries drawn from {this message's PGN, another PGN, the claim PGN, this message's id / another id / the claim id, each "
    "as given, lower-cased, upper-cased}, as exclude list and as include list, for an ordinary message and for an address claim. The constructor is "
    "read statically: split_pgn_list's element types and normalisation [FILTER-TYPE], the defining expression of the claim-suppression flag and the "
    "removal loops are applied to the model. [FILTER-TABLE] the extracted 'is returned' function equals the statement's: not excluded by number or "
    "id, and (no include list, or listed by number or by id), ids case-insensitive. [CLAIM-MAP] for the claim PGN the source-map store is reached "
    "before any filter return in every model. [FILTER-NORM] every membership test against an id list has a lower-cased probe. [FILTER-PRE] a "
    "decision by number is taken in _decode, before reassembly state is touched. [FILTER-PURE] nothing filter-dependent is written into the message. "
    "The constructor is interpreted (absint.py) on every configuration of the table, so the claim flag, the list splitting and the removal of the claim from the lists may be spelled in any way. UNDECIDED: 'same positions' over whole histories (follows from the above together with C04/C16, not executed)."
    " [FILTER-HIST] _call_decode_function is interpreted on the decoder its constructor builds over short histories in which one PGN number carries two definitions (A B, B A, A B A ...) with exclude=[id of B] / include=[id of A] and the reverse roles: every step's verdict must be the statement's for THAT message (a verdict memoised per number fails). [RA-DONE] (C04) with a delivered message that the id filters withhold: the reassembly record is still removed. When a guard of the tables is not evaluable as a term (another spelling: getattr, count(), a flag local ...), the same question is answered by running _decode in the abstract interpreter (rules_filter.DecodePath)."
)
ASSUMPTIONS = ["CPython ast parser", "sym.py guard extraction (program order, if/else joined)", "teval.py evaluates Python's in / not in / len / and / or / == on stand-in lists",
               "non-filter early returns (network map window, manufacturer filter, unknown PGN) are held at their non-firing value"]

def run(chk, program, tier):
    for r, t in (('FILTER-TABLE', 'extracted decision function == statement, over all list shapes'), ('CLAIM-MAP', 'claims reach the source map before being filtered'),
                 ('FILTER-NORM', 'LOWER probe against lower-cased lists'), ('FILTER-TYPE', 'element types of the lists; probes of a type that cannot occur'),
                 ('FILTER-PRE', 'numeric decision before reassembly'), ('FILTER-PURE', 'no filter-dependent write into the message')):
        chk.rule(r, t)
    chk.rule('RA-DONE', 'the reassembly record is removed on completion whether or not the message passes the id filters (C04)')
    from .. import rules_reasm as RR
    RR.decide(chk, program, tier, ['RA-DONE'])
    chk.rule('FILTER-HIST', 'the verdict on a message depends on the configuration and on that message only, not on the messages decided before it')
    F.filter_history(chk, program)
    chk.rule('STATE-DEPS', 'filter verdicts depend on configuration only, never on what was filtered before (C16)')
    from .. import rules_iso, rules_decoder as D_
    from .c16 import _Sub
    rules_iso.state_deps(_Sub(chk, {'STATE-DEPS'}), program)
    chk.rule('MAP-REPLACE', 'address claims update the source map whether or not they are filtered out (C11 history)'); chk.rule('MAP-ATTACH', 'identity attached = latest claim of the source (C11 history)')
    D_.map_history(_Sub(chk, {'MAP-REPLACE', 'MAP-ATTACH'}), program)
    res = F.filter_table(chk, program, max_entries=3 if tier == 'thorough' else 2)
    if res is None:
        return
    consts, sf, cf, stages = res
    a = F.attr_names(program, cf)
    lower_attrs = {a['exclude_pgns'][1], a['include_pgns'][1]}
    int_attrs = {a['exclude_pgns'][0], a['include_pgns'][0]}
    n = F.norm_rule(chk, program, 'FILTER-NORM', lower_attrs, int_attrs, ['__init__', '_decode', '_call_decode_function'], consts)
    chk.floor('membership_tests', n, 5)       # the tests of the decode stages; the constructor's own are covered by its interpretation (FILTER-TABLE)
    # FILTER-PURE: arguments handed to add_data / apply_preferred_units and stores do not mention the filter lists
    fn, ex = stages['_call_decode_function']
    filt = lower_attrs | int_attrs | {a['flag']}
    for e in ex.events:
        if e[0] in ('expr', 'store'):
            t = e[2] if e[0] == 'expr' else e[3]
            mentions = [s_[2] for s_ in sym.walk(t) if s_[0] == 'attr' and s_[1] == ('param', 'self') and s_[2] in filt]
            if e[0] == 'expr' and t[0] == 'call' and t[1][0] == 'attr' and t[1][2] in ('debug', 'info', 'warning', 'error'):
                continue
            chk.check(not mentions, 'FILTER-PURE', f"_call_decode_function::{show(t)[:50]}", file=DEC, line=e[-1], func='_call_decode_function',
                      expected='no filter state flows into the message', found=mentions or 'none', nontrivial=False)
