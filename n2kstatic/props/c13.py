"""C13 -- gateway clients recover from every connection fault and never stall the loop."""
from .. import rules_client as K

LEVEL = 'other'
EXPLANATION = (
    "[EOF] every awaited self.reader read in a _receive_impl (3 implementations found via the class hierarchy) surfaces end of stream as an "
    "exception: readexactly/readuntil raise by contract; read/readline return b'' and must be followed, on every path to the return, by an "
    "emptiness test whose empty branch can only raise. [FAULT-PATH] the `except Exception` handlers around the receive call and around the "
    "writes in send, on their not-CLOSED branch, call _update_state(DISCONNECTED) and then create the connect() task on every path. [FAULT-PATH] is evaluated per state value: with the client CONNECTED or DISCONNECTED every path through the handler reports and reconnects, with CLOSED neither. [BUF-RESET] the buffering client's _connect_impl resets its buffer on every normal path. [RETRY] "
    "AsyncRetrying(stop=stop_never, wait=wait_exponential(multiplier>0, 0<max<inf), retry on Exception) with _connect_impl awaited inside "
    "`with attempt` => delays min(max, m*2^(n-1)): growing, capped, never zero. [ONE-RX] the receive loop is started at one site, under the "
    "connect lock, stored, and dominated by cancellation of a running predecessor. [YIELD] every cycle of the two background loops passes an "
    "await that cannot complete without suspending infinitely often (reader op under EOF discipline, queue.get, sleep(>0)). SCAN-PROGRESS and the serial EOF clause are decided on the interpreted serial scanner (every call returns within the step budget; a read of b'' raises); ONE-RX's cancellation clause is a forward must-analysis with branch refinement (any spelling of the guarding test, local aliases). UNDECIDED: actual "
    "timing, peer behaviour, tenacity internals, schedules in which a slow status callback holds the connect lock while the old receive path faults."
    " [RETRY] a retry loop written by hand (no AsyncRetrying) is decided by walking connect()'s graph along the path of a failing attempt, 40 failures in a row, with the numeric locals evaluated concretely: each failure must lead back to the attempt through an awaited sleep whose delay is positive, never shrinks, grows and is capped. FAULT-PATH follows local flags (failure = None / ex) path-sensitively."
    ' Fifth round: a path through a fault handler is a witness only when no undecided test on it reads something of the client that may stand for the connection state; start / get / put sites that moved into helpers, an attempt or a callback inside a `with` over an unknown context manager, and reads made through helpers are undecided; a helper coroutine runs under the lock when every call (or hand-over as a value) of it does.'
)
ASSUMPTIONS = ["CPython ast parser", "asyncio.StreamReader: readexactly/readuntil raise at EOF, read/readline return b''", "tenacity 9.1 wait_exponential formula",
               "an await on a reader at EOF / queue.put on an unbounded queue completes without suspending", "cfg.py exception-edge model"]

def run(chk, program, tier):
    for r, t in (('EOF', 'end of stream becomes an exception'), ('FAULT-PATH', 'fault -> DISCONNECTED -> reconnect task'),
                 ('RETRY', 'retry forever, exponential capped non-zero delay'), ('ONE-RX', 'one receive path at a time'),
                 ('YIELD', 'no cycle of a background loop can spin without suspending'), ('BUF-RESET', 'a new connection starts with an empty reassembly buffer'), ('SCAN-PROGRESS', 'the await-free scan loop removes bytes on every iteration (cannot spin)')):
        chk.rule(r, t)
    K.eof_rule(chk, program)
    K.fault_path(chk, program)
    K.retry_rule(chk, program)
    K.retry_hook_cannot_raise(chk, program)
    K.one_rx(chk, program)
    K.lock_window(chk, program)
    K.yield_rule(chk, program)
    K.buf_reset(chk, program)
    # the scan loop inside the buffering _receive_impl contains no await on most paths: it must consume a packet on every iteration (weaker form of C20 BUF-PROGRESS)
    from .. import rules_serial as RS
    RS.decide(chk, program, tier, ['SCAN-PROGRESS', 'EOF'])
