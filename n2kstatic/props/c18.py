"""C18 -- preferred-unit conversion rewrites only value and unit of matching quantities."""
from .. import rules_msg as M

LEVEL = 'other'
EXPLANATION = (
    "[UNIT-EFFECT] the loop body of NMEA2000Message.apply_preferred_units (sym.py events) stores only f.value and f.unit_of_measurement, each store "
    "guarded by the field's physical quantity and by the requested unit; value and label are rewritten together. [UNIT-TABLE] the (quantity, requested "
    "literal) rows are exactly the statement's six (TEMPERATURE c/f, PRESSURE bar/psi, ANGLE deg, SPEED kts), each converting f.value through a helper; "
    "database fields of those quantities carry the SI unit the helpers assume. [UNIT-NORM] requested literals are lower-case and the decoder lower-cases "
    "the preference map it passes. [UNIT-AFFINE] each helper maps None to None and otherwise is an affine map (evaluated in the affine domain over its "
    "return term, through round(.,k) and math.degrees) whose slope/intercept equal the physical ones (K->C, K->F, Pa->bar, Pa->psi, rad->deg, m/s->kn) "
    "within 1e-3 relative. UNIT-TABLE / UNIT-EFFECT are decided by interpreting apply_preferred_units per (quantity, preference literal) on a message with one symbolic field per quantity and unit: recognised preferences rewrite value (through one converter applied to the field's own value) and label together, everything else is untouched. UNDECIDED: nothing of substance besides float rounding."
    ' [UNIT-APPLIED] in _call_decode_function every path to a return of the message passes apply_preferred_units (must-analysis; paths possible only with no preferences excepted); a bypass that depends on the message, the arguments or state that changes while decoding is a violation, one that depends on construction-time configuration only is undecided. [STATE-DEPS] (C16) configuration is not written after construction.'
    ' Seventh round: every recognised preference is applied a second time to a message of the same PGN whose fields are in another order, in the same module environment: the same field of the matching quantity must be converted by the same converter (positions remembered per PGN number fail).'
)
ASSUMPTIONS = ["CPython ast parser", "sym.py def-use substitution over the loop body", "affine evaluation of + - * / round math.degrees", "physical conversion constants"]

def run(chk, program, tier):
    for r, t in (('UNIT-EFFECT', 'only value and unit label written, under quantity+unit guards'), ('UNIT-TABLE', 'the six recognised preferences'),
                 ('UNIT-NORM', 'lower-case normal form'), ('UNIT-AFFINE', 'helper coefficients are the physical ones')):
        chk.rule(r, t)
    M.unit_rules(chk, program)
    chk.rule('UNIT-APPLIED', 'every returned message went through apply_preferred_units (unless there are no preferences)')
    M.unit_applied(chk, program)
    chk.rule('STATE-DEPS', 'whether and how a message is converted does not depend on the messages decoded before it (C16)')
    from .. import rules_iso
    from .c16 import _Sub
    rules_iso.state_deps(_Sub(chk, {'STATE-DEPS'}), program)
