"""C09 -- encoding never silently corrupts a value."""
import ast
from .. import rules_gen as R, rules_enc as E, rules_help as H, sym
from ..sym import C, NONE, show
from ..model import AnalysisError

LEVEL = 'other'
EXPLANATION = (
    "[ENC-RANGE] in the residual of utils.encode_number at every (BitLength, Signed, Resolution) of an encodable NUMBER/PGN field, the "
    "first decision after the None test is a range test of the rounded quotient against [-2^(n-1), 2^(n-1)-2] / [0, 2^n-2] leading to "
    "raise ValueError, and every returning row lies after it. [ENC-NA] the None row returns the not-available code. [ENC-MASK] every "
    "generated OR-piece has mask 2^BitLength-1 and shift BitOffset; database bit ranges of one definition are pairwise disjoint and "
    "inside Length; the payload integer has no other writer, so a field's value reaches only its own bits. [ENC-MISSING] "
    "get_field_by_id raises on every path where no field matches. [ENC-WRAP] whatever leaves _call_encode_function is ValueError. "
    "[ENC-PRODUCER] inventory of what reaches each mask: range-checked (encode_number, encode_float) versus unchecked producers. "
    "ENC-RANGE / SIGN-AGREE / ENC-NA are read off the encode_number residual evaluated as an exact piecewise-affine function of round(value/resolution) over all integers (piece.py); ENC-MISSING and the encoder lookup are decided by interpreting get_field_by_id and _call_encode_function. UNDECIDED: the numeric 'within half a resolution step' for accepted values."
    ' ENC-MISSING is decided on histories as well: the same message asked again after one field was replaced, after a new field list was assigned, after an append (a lookup cache that is not refreshed fails). SENT-AGREE / SIGN-AGREE (C02) are included: an absent value must be written as the pattern the decoder reads as absent.'
    ' Ninth round: where the encode_number residual is decided on points, module-level constant tables of utils that it reads (bound once to a constant expression, never written or mutated) are resolved, so a scale looked up in such a table is judged at every database (BitLength, Signed, Resolution).'
    ' Fifth round: [ENC-STATE] every use of self.<attr> in the encoder is classified (read / write / not visible): bound in __init__ and only read is configuration, written and read after construction is state between messages (violation), anything else is undecided. When the encode_number residual is not of the piecewise form it is decided on points (tick counts around every boundary, None): ENC-RANGE / SENT-AGREE / SIGN-AGREE then rest on sampled points. An encode_time call site that was not read and a payload assembled by a loop the guard extractor only approximates give no verdict.'
    ' Seventh round: ENC-MISSING runs its histories in one module environment and asks a second message of the same PGN whose fields are ordered differently (a position remembered per PGN number fails).'
    ' Eighth round: see C02 for newly encodable field types.'
)
ASSUMPTIONS = ["CPython ast parser", "canboat.json is the oracle", "sym.py partial evaluation",
               "struct.pack('<f') raises on values outside the 32-bit float range (documented)"]

def enc_missing(chk, program):
    fn = program.fn('message', 'NMEA2000Message.get_field_by_id')
    # decided on the interpreted method (absint): a message with fields a, b, a -> 'a' gives the first a, 'b' gives b, an id that is not there raises
    # ValueError, so does any id on a message without fields -- whatever the spelling (next(generator), a loop with an early return, ...)
    from .. import absint as A
    try:
        fa, fb, fc = A.AObj(id=A.AStr([('lit', 'a')]), n=1), A.AObj(id=A.AStr([('lit', 'b')]), n=2), A.AObj(id=A.AStr([('lit', 'a')]), n=3)
        cls = program.cls('message', 'NMEA2000Message')
        methods = {n.name: n for n in cls.body if isinstance(n, ast.FunctionDef)}
        def defaults():
            """attributes a fresh message has beyond those given to the constructor: the class-level defaults (constants, default_factory of list / dict)"""
            d = {}
            for n in cls.body:
                if isinstance(n, ast.AnnAssign) and isinstance(n.target, ast.Name) and n.value is not None:
                    v = n.value
                    if isinstance(v, ast.Constant):
                        d[n.target.id] = v.value if v.value is None or isinstance(v.value, bool) else (A.AInt(v.value) if isinstance(v.value, int) else (A.AStr([('lit', v.value)]) if isinstance(v.value, str) else None))
                    elif isinstance(v, ast.Call) and isinstance(v.func, ast.Name) and v.func.id == 'field':
                        for kw in v.keywords:
                            if kw.arg == 'default_factory' and isinstance(kw.value, ast.Name) and kw.value.id in ('list', 'dict'):
                                d[n.target.id] = A.AList([]) if kw.value.id == 'list' else A.ADict({})
                            elif kw.arg == 'default' and isinstance(kw.value, ast.Constant) and kw.value.value is None:
                                d[n.target.id] = None
            return d
        def message(fields):
            at = defaults()
            at.update(fields=A.AList(list(fields)), PGN=A.AInt(1), id=A.AStr([('lit', 'x')]))
            return A.AObj(**at)
        menv = A.ModuleEnv(program.mod('message').tree)          # one module for the whole history: what a call leaves at module level is seen by the next
        def look(msg, fid):
            try:
                return ('return', A.Interp(methods=methods, module=menv).call_function(fn, [msg, A.AStr([('lit', fid)])]))
            except A.RaiseSignal as r:
                return ('raise', A.exc_kind(r))
        def run(fields, fid):
            return look(message(fields), fid)
        got = {'first-of-duplicates': run([fa, fb, fc], 'a'), 'second': run([fa, fb, fc], 'b'), 'missing': run([fa, fb, fc], 'zz'), 'no-fields': run([], 'a')}
        want = {'first-of-duplicates': ('return', fa), 'second': ('return', fb), 'missing': ('raise', 'ValueError'), 'no-fields': ('raise', 'ValueError')}
        # the answer is a function of the fields the message has NOW: the same message asked again after its field list was edited
        fd = A.AObj(id=A.AStr([('lit', 'd')]), n=4)
        m1 = message([fa, fb, fc]); look(m1, 'a'); m1.attrs['fields'].items[0] = fd
        got['after-replacing-one-field::new'] = look(m1, 'd'); want['after-replacing-one-field::new'] = ('return', fd)
        got['after-replacing-one-field::old'] = look(m1, 'a'); want['after-replacing-one-field::old'] = ('return', fc)
        m2 = message([fa]); look(m2, 'a'); m2.attrs['fields'] = A.AList([fb])
        got['after-assigning-a-new-list::new'] = look(m2, 'b'); want['after-assigning-a-new-list::new'] = ('return', fb)
        got['after-assigning-a-new-list::old'] = look(m2, 'a'); want['after-assigning-a-new-list::old'] = ('raise', 'ValueError')
        m3 = message([fa]); look(m3, 'b'); m3.attrs['fields'].items.append(fb)
        got['after-append'] = look(m3, 'b'); want['after-append'] = ('return', fb)
        # ... and of THIS message: another message of the same PGN whose fields are laid out differently (another definition of the number, a repeated set)
        look(message([fa, fb]), 'b')
        got['other-message-same-pgn-other-layout'] = look(message([fb, fd, fa]), 'b'); want['other-message-same-pgn-other-layout'] = ('return', fb)
        got['other-message-same-pgn-shorter'] = look(message([fa]), 'b'); want['other-message-same-pgn-shorter'] = ('raise', 'ValueError')
        ok = all(got[k][0] == want[k][0] and (got[k][1] is want[k][1] if want[k][0] == 'return' else got[k][1] == want[k][1]) for k in want)
        chk.check(ok, 'ENC-MISSING', 'NMEA2000Message.get_field_by_id', file='nmea2000/message.py', line=fn.lineno, func='get_field_by_id',
                  expected='first field of the current field list with f.id == id, else raise ValueError (no path returns None / a default / a field the message no longer has)',
                  found='ok' if ok else {k: (v[0], (v[1].attrs.get('n') if isinstance(v[1], A.AObj) else repr(v[1]))) for k, v in got.items() if not (v[0] == want[k][0] and (v[1] is want[k][1] if want[k][0] == 'return' else v[1] == want[k][1]))})
        return
    except A.Unknown as u:
        chk.unit('get_field_by_id_not_interpretable', str(u))
    ex = sym.SymExec(fn)
    try:
        ex.run()
    except sym.Unsupported as u:
        chk.unknown('ENC-MISSING', 'get_field_by_id', str(u), 'nmea2000/message.py', fn.lineno)
        return
    rets = [e for e in ex.events if e[0] == 'return']
    raises = [e for e in ex.events if e[0] == 'raise']
    # accepted idiom: field = next((f for f in self.fields if f.id == id), None); if field is None: raise ...; return field
    ok = False
    detail = ''
    if len(rets) == 1 and raises:
        v = rets[0][2]
        g = [x for x in sym.conj(rets[0][1])]
        none_test = sym.mk_not(('cmp', 'is', v, NONE))
        alt = ('cmp', 'is not', v, NONE)
        is_next = v[0] == 'call' and v[1] == ('name', 'next') and len(v[2]) == 2 and v[2][1] == NONE and v[2][0][0] == 'generatorexp'
        if is_next and (none_test in g or alt in g):
            gen = v[2][0]
            elt, gens = gen[1], gen[2]
            # element is the loop variable; iterable self.fields; condition var.id == id-param
            if len(gens) == 1 and elt == gens[0][0] and gens[0][1] == ('attr', ('param', ex.params[0]), 'fields') and len(gens[0][2]) == 1:
                cond = gens[0][2][0]
                idp = ('param', ex.params[1])
                if cond in (('cmp', '==', ('attr', elt, 'id'), idp), ('cmp', '==', idp, ('attr', elt, 'id'))):
                    ok = all(('cmp', 'is', v, NONE) in sym.conj(r[1]) for r in raises[:1]) and H._exc_name(raises[0][2]) == 'ValueError'
                else:
                    detail = 'selection predicate is not `f.id == id`: ' + show(cond)
    if not ok and not detail:
        # neither interpretable nor of the one spelling this reading knows: no verdict
        chk.unknown('ENC-MISSING', 'get_field_by_id', 'not interpretable, and not of the shape `next((f for f in self.fields if f.id == id), None)` followed by a raise: '
                    + '; '.join(f"{e[0]} {show(e[2])[:60]}" for e in ex.events if e[0] in ('return', 'raise'))[:200], 'nmea2000/message.py', fn.lineno)
        return
    chk.check(ok, 'ENC-MISSING', 'NMEA2000Message.get_field_by_id', file='nmea2000/message.py', line=fn.lineno, func='get_field_by_id',
              expected='first field with f.id == id, else raise ValueError (no path returns None / a default)',
              found=[f"{e[0]} {show(e[2])[:100]} when {[show(x)[:80] for x in e[1]]}" for e in ex.events if e[0] in ('return', 'raise')], detail=detail)

def enc_wrap(chk, program):
    """everything that can leave _call_encode_function is ValueError"""
    fn = program.fn('encoder', 'NMEA2000Encoder._call_encode_function')
    f = 'nmea2000/encoder.py'
    # (1) the dynamic call encode_func(msg) sits in a try whose handler catches Exception and raises ValueError
    calls = [n for n in ast.walk(fn) if isinstance(n, ast.Call) and isinstance(n.func, ast.Name) and n.func.id == 'encode_func']
    chk.check(len(calls) >= 1, 'ENC-WRAP', '_call_encode_function::dynamic-call', file=f, line=fn.lineno, expected='encode_func(message) call', found=len(calls), nontrivial=False)
    for c in calls:
        t = c
        tr = None
        while hasattr(t, '_parent'):
            p = t._parent
            if isinstance(p, ast.Try) and t in p.body:
                tr = p
                break
            if p is fn:
                break
            t = p
        ok = False
        found = 'call outside any try'
        if tr is not None:
            found = []
            for h in tr.handlers:
                names = _handler_names(h)
                raises = [n for n in ast.walk(h) if isinstance(n, ast.Raise)]
                rn = [_raise_name(r) for r in raises]
                found.append({'catches': names, 'raises': rn})
                if ('Exception' in names or 'BaseException' in names or names == ['<bare>']) and rn and all(x == 'ValueError' for x in rn) and _always_raises(h.body):
                    ok = True
                    break
                if 'Exception' in names or names == ['<bare>']:
                    break
        chk.check(ok, 'ENC-WRAP', '_call_encode_function::try', file=f, line=c.lineno, func='_call_encode_function',
                  expected='try: encode_func(..) except Exception as e: raise ValueError(e)', found=found)
    # (2) every other raise in the function is ValueError
    for r in [n for n in ast.walk(fn) if isinstance(n, ast.Raise)]:
        chk.check(_raise_name(r) == 'ValueError', 'ENC-WRAP', f"_call_encode_function::raise@{_stmt_key(r)}", file=f, line=r.lineno, func='_call_encode_function',
                  expected='ValueError', found=_raise_name(r))

def _stmt_key(n):
    return ast.unparse(n)[:50].replace(' ', '_')

def _handler_names(h):
    if h.type is None:
        return ['<bare>']
    if isinstance(h.type, ast.Tuple):
        return [ast.unparse(e) for e in h.type.elts]
    return [ast.unparse(h.type)]

def _raise_name(r):
    if r.exc is None:
        return '<reraise>'
    e = r.exc
    if isinstance(e, ast.Call):
        e = e.func
    return ast.unparse(e)

def _always_raises(body):
    if not body:
        return False
    last = body[-1]
    if isinstance(last, ast.Raise):
        return True
    if isinstance(last, ast.If):
        return _always_raises(last.body) and _always_raises(last.orelse)
    return False

def bit_disjoint(chk, program):
    db = program.db
    n = 0
    for d in db.defs:
        if not d.encodable():
            continue
        n += 1
        used = 0
        ok = True
        bad = None
        for f in d.fields:
            m = ((1 << f.bit_length) - 1) << f.bit_offset
            if used & m:
                ok = False; bad = f.dbid
            used |= m
            if d.length is not None and f.bit_offset + f.bit_length > d.length * 8:
                ok = False; bad = f.dbid + ' beyond Length'
        chk.check(ok, 'ENC-MASK', f"db::{d.key}::disjoint", file='canboat.json', line=0, expected='field bit ranges pairwise disjoint and inside Length', found=bad, nontrivial=True)
    chk.unit('disjointness_checked', n)

def run(chk, program, tier):
    chk.rule('ENC-STATE', 'encoder keeps no state between messages besides the fast-packet sequence counter')
    for r, t in (('ENC-RANGE', 'range test dominates every return of encode_number'), ('ENC-NA', 'None -> not-available code'),
                 ('ENC-MASK', 'mask/shift per piece; disjoint database bit ranges'), ('GEN-ENC', 'each call site hands encode_number the bit length / signedness / resolution of its own field'), ('ENC-MISSING', 'missing field raises'),
                 ('ENC-WRAP', 'encoder errors surface as ValueError'), ('ENC-PRODUCER', 'unchecked producers reaching a mask'), ('ROUND', 'round before int')):
        chk.rule(r, t)
    chk.rule('SENT-AGREE', 'an absent value is written as the pattern the decoder reads as absent (C02)')
    chk.rule('SIGN-AGREE', 'two\'s complement agrees with the decoder (C02)')
    H.enc_range(chk, program)
    sites = E.gen_enc(chk, program, want=('table', 'mask'))
    H.sent_sign_agree(chk, program, sites)
    bit_disjoint(chk, program)
    enc_missing(chk, program)
    enc_wrap(chk, program)
    E.enc_state(chk, program)
    E.enc_producer(chk, program, sites)
    chk.floor('encoder_rows', chk.units.get('encoder_rows', 0), 1700)
