"""runner.py -- obligations -> stdout, evidence, replay files, exit code."""
from __future__ import annotations

import json
import os
import random
import re
import sys
import time
import traceback

VERIF = os.path.dirname(os.path.dirname(os.path.abspath(__file__)))
EVID = os.environ.get('N2K_EVIDENCE_DIR') or os.path.join(VERIF, 'evidence')   # developer tools redirect this; registered commands never set it
KNOWN_FILE = os.path.join(VERIF, 'KNOWN_FINDINGS.txt')
KNOWN_SITES_DIR = os.path.join(VERIF, 'known_sites')

class Obligation:
    __slots__ = ('rule', 'instance', 'status', 'file', 'line', 'func', 'expected', 'found', 'detail', 'nontrivial', 'group')
    def __init__(self, rule, instance, status, file='', line=0, func='', expected=None, found=None, detail='', nontrivial=True, group=None):
        self.rule = rule; self.instance = instance; self.status = status
        self.file = file; self.line = line; self.func = func
        self.expected = expected; self.found = found; self.detail = detail
        self.nontrivial = nontrivial
        self.group = group          # replicated-site findings: the producer kind they collapse under
    def key(self):
        return f"{self.rule}::{self.instance}"
    def as_dict(self):
        d = {'rule': self.rule, 'instance': self.instance, 'status': self.status, 'file': self.file, 'line': self.line}
        if self.func: d['function'] = self.func
        if self.expected is not None: d['expected'] = _j(self.expected)
        if self.found is not None: d['found'] = _j(self.found)
        if self.detail: d['detail'] = self.detail
        return d

def _j(x):
    try:
        json.dumps(x)
        return x
    except Exception:
        return str(x)

def load_known():
    """KNOWN_FINDINGS.txt -> {property: {key: text}}, plus fixed lines (informational)."""
    known = {}
    fixed = []
    if not os.path.exists(KNOWN_FILE):
        return known, fixed
    for raw in open(KNOWN_FILE, encoding='utf-8'):
        line = raw.strip()
        if not line or line.startswith('#'):
            continue
        if line.startswith('known:'):
            m = re.match(r'known:\s+property=(\S+)\s+rule=(\S+)\s+instance=(\S+)\s*::\s*(.*)$', line)
            if not m:
                raise RuntimeError(f"malformed KNOWN_FINDINGS line: {line}")
            pid, rule, inst, text = m.groups()
            known.setdefault(pid, {})[f"{rule}::{inst}"] = text
        elif line.startswith('fixed:'):
            fixed.append(line)
    return known, fixed

def load_known_sites(name):
    p = os.path.join(KNOWN_SITES_DIR, name + '.txt')
    if not os.path.exists(p):
        return None
    return {l.strip() for l in open(p, encoding='utf-8') if l.strip() and not l.startswith('#')}

class Check:
    """collects obligations for one property run"""
    def __init__(self, pid, tier, seed, level, program):
        self.pid = pid; self.tier = tier; self.seed = seed; self.level = level
        self.program = program
        self.obs = []
        self.errors = []            # analysis errors (fail closed)
        self.units = {}
        self.floors = {}            # name -> (found, floor)
        self.rules = {}             # rule id -> description
        self.notes = []
        self.t0 = time.time()
        self.witness = None

    # ---- recording
    def rule(self, rid, text):
        self.rules[rid] = text

    def ok(self, rule, instance, **kw):
        self.obs.append(Obligation(rule, instance, 'ok', **kw))

    def violation(self, rule, instance, **kw):
        self.obs.append(Obligation(rule, instance, 'violation', **kw))

    def check(self, cond, rule, instance, **kw):
        if cond:
            self.ok(rule, instance, **kw)
        else:
            self.violation(rule, instance, **kw)
        return cond

    def anchor(self, cond, rule, instance, **kw):
        """the construct a rule is attached to must be found; when it is not, the code is spelled in a way the rule cannot read: that is a refusal
        (analysis error), not a violation -- nothing is known about the behaviour"""
        if cond:
            kw.pop('detail', None)
            self.ok(rule, instance, **kw)
        else:
            self.unknown(rule, instance, f"anchor not found: expected {kw.get('expected')!r}, found {kw.get('found')!r}", kw.get('file', ''), kw.get('line', 0))
        return cond

    def unknown(self, rule, instance, why, file='', line=0):
        self.errors.append(f"{rule}::{instance} at {file}:{line}: {why}")

    def floor(self, name, found, floor):
        self.floors[name] = (found, floor)
        if found < floor:
            self.errors.append(f"instance count {name}={found} below the floor {floor} confirmed by hand (rule would pass vacuously)")

    def unit(self, name, value):
        self.units[name] = value

    # ---- finishing
    def finish(self, explanation, assumptions, extra_cov=None):
        known, _fixed = load_known()
        known = known.get(self.pid, {})
        viol = [o for o in self.obs if o.status == 'violation']
        reported = []
        known_hit = []
        for o in viol:
            k = o.key()
            if k in known:
                known_hit.append((o, known[k]))
                continue
            if o.group:
                gk = f"{o.rule}::{o.group}"
                sites = load_known_sites(f"{o.rule}-{o.group}")
                if gk in known and sites is not None and o.instance in sites:
                    known_hit.append((o, known[gk]))
                    continue
            reported.append(o)
        out = []
        # known findings: one line per key (grouped ones collapse)
        seen = set()
        for o, text in known_hit:
            k = f"{o.rule}::{o.group}" if (o.group and o.key() not in known) else o.key()
            if k in seen:
                continue
            seen.add(k)
            n = sum(1 for p, _ in known_hit if (f"{p.rule}::{p.group}" if (p.group and p.key() not in known) else p.key()) == k)
            out.append(f"KNOWN-FINDING: property={self.pid} rule={o.rule} instance={k.split('::', 1)[1]}" + (f" sites={n}" if n > 1 else '') + f" :: {text}")
        replay_dir = os.path.join(EVID, 'replay')
        os.makedirs(replay_dir, exist_ok=True)
        # remove stale replay files of this property
        for fn in os.listdir(replay_dir):
            if fn.startswith(self.pid + '-'):
                try: os.remove(os.path.join(replay_dir, fn))
                except OSError: pass
        status = 0
        for e in self.errors:
            out.append(f"ANALYSIS-ERROR property={self.pid} {e}")
        if reported:
            # a recognised violation stands even when another rule could not finish its analysis
            for i, o in enumerate(reported):
                path = os.path.join(replay_dir, f"{self.pid}-{i}.json")
                with open(path, 'w') as f:
                    json.dump({'property': self.pid, 'obligation': o.as_dict(), 'repo': self.program.repo if self.program else None,
                               'how': f"./check-replay {path}"}, f, indent=1, default=str)
                out.append(f"{o.file}:{o.line}: [{o.rule}] {o.instance}: {o.detail or ''} expected={_short(o.expected)} found={_short(o.found)}")
                out.append(f"VIOLATION property={self.pid} replay={path}")
            status = 1
        elif self.errors:
            status = 2
        wall = time.time() - self.t0
        # ---- evidence
        n = len(self.obs)
        distinct = len({o.key() for o in self.obs if o.nontrivial})
        rng = random.Random(self.seed)
        oks = [o for o in self.obs if o.status == 'ok']
        samples = [o.as_dict() for o in (rng.sample(oks, min(4, len(oks))) if oks else [])]
        samples += [o.as_dict() for o in viol[:4]]
        per_rule = {}
        for o in self.obs:
            r = per_rule.setdefault(o.rule, {'obligations': 0, 'ok': 0, 'violations': 0})
            r['obligations'] += 1
            r['ok' if o.status == 'ok' else 'violations'] += 1
        cov = {
            'explanation': explanation,
            'rule': 'one obligation per (rule, instance); an instance is a named construct of /repo (function, call site, field, arm, path); non-trivial = compares at least one non-default value or decides a path fact',
            'rules': self.rules,
            'evaluations': n,
            'distinct_nontrivial': distinct,
            'obligations': n,
            'discharged': n - len(viol),
            'violations_known': len(known_hit),
            'violations_reported': len(reported),
            'per_rule': per_rule,
            'floors': {k: {'found': a, 'floor': b} for k, (a, b) in self.floors.items()},
            'units': self.units,
            'samples': samples or [{'note': 'no obligation was generated'}],
            'exhaustive': True,
            'checker_cmd': f"./check {self.pid} {self.tier}",
            'trusted_base': assumptions,
            'analysis_errors': self.errors,
            'files': self.program.digests if self.program else {},
        }
        if self.level == 'translation_validation':
            cov['programs'] = int(self.units.get('programs', 0)) or 1
            cov['disagreements_checked'] = n
        if self.witness is not None:
            cov['witness'] = self.witness
        if extra_cov:
            cov.update(extra_cov)
        ev = {
            'property_id': self.pid, 'tier': self.tier, 'seed': self.seed, 'level': self.level,
            'coverage': cov, 'assumptions': assumptions, 'wall_s': round(wall, 3),
            'violations': len(reported),
        }
        os.makedirs(EVID, exist_ok=True)
        with open(os.path.join(EVID, f"{self.pid}.json"), 'w') as f:
            json.dump(ev, f, indent=1, default=str)
        summary = f"{self.pid} [{self.tier}] obligations={n} discharged={n - len(viol)} known={len(known_hit)} violations={len(reported)} errors={len(self.errors)} wall={wall:.2f}s"
        out.append(summary)
        print('\n'.join(out))
        return status

def _short(x, n=160):
    s = x if isinstance(x, str) else json.dumps(_j(x), default=str)
    return s if len(s) <= n else s[:n] + '...'

def write_error_evidence(pid, tier, seed, level, msg):
    """evidence for a run that ended in ANALYSIS-ERROR before a Check existed"""
    ev = {'property_id': pid, 'tier': tier, 'seed': seed, 'level': level,
          'coverage': {'explanation': 'analysis error: ' + msg, 'evaluations': 0, 'distinct_nontrivial': 0,
                       'samples': [{'error': msg}], 'obligations': 0, 'discharged': 0, 'checker_cmd': f'./check {pid} {tier}',
                       'trusted_base': [], 'programs': 0, 'disagreements_checked': 0},
          'assumptions': [], 'wall_s': 0.0, 'violations': 0}
    os.makedirs(EVID, exist_ok=True)
    with open(os.path.join(EVID, f"{pid}.json"), 'w') as f:
        json.dump(ev, f, indent=1)
