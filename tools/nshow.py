#!/usr/bin/env python3
"""developer tool: show what normalize.py does to a module of /repo + one stored patch.  usage: tools/nshow.py <dir with patch.diff> <module> [function]"""
import ast, os, shutil, subprocess, sys, tempfile
sys.path.insert(0, os.path.dirname(os.path.dirname(os.path.abspath(__file__))))
from n2kstatic.model import Program
d = tempfile.mkdtemp(prefix='n2kn-')
try:
    shutil.copytree('/repo/nmea2000', os.path.join(d, 'nmea2000'), ignore=shutil.ignore_patterns('__pycache__'))
    os.symlink('/repo/canboat.json', os.path.join(d, 'canboat.json'))
    if sys.argv[1] != '-':
        subprocess.run(['git', 'apply', '--include=nmea2000/*', os.path.join(os.path.abspath(sys.argv[1]), 'patch.diff')], cwd=d, check=True)
    prog = Program(d, need_generated=False)
    m = prog.mod(sys.argv[2])
    print('REPORT', m.normalisation)
    if len(sys.argv) > 3:
        for q, f in m.defs.items():
            if q.endswith(sys.argv[3]):
                print(ast.unparse(f))
finally:
    shutil.rmtree(d, ignore_errors=True)
