#!/usr/bin/env python3
"""regenerates MANIFEST.json from the property modules (run from /verif)"""
import importlib, json, os, sys
sys.path.insert(0, os.path.dirname(os.path.dirname(os.path.abspath(__file__))))
TECH = {
 'C01': 'translation validation of generated decoders and lookup tables against canboat.json; partial evaluation of utils helpers at database constants',
 'C02': 'encoder/decoder/database table agreement; encode_number residual as an exact piecewise-affine function of the tick count (interval splitting); absent-value paths by partial evaluation at None',
 'C03': 'abstract interpretation (byte-provenance domain) of the fast-packet segmenter over all lengths x counter states, composed with the interpreted reassembler; interpreted frame histories with symbolic payloads',
 'C04': 'abstract interpretation of the reassembler on bounded families of frame histories (reordering, duplication, loss, interleaving; symbolic payload and padding); statement-CFG guard rules as confirmation',
 'C05': 'per-bit provenance of identifier build/parse under a case split on the bits the predicates consult (256 values of the PDU-format byte), both compositions; writer/reader composition for the header word and identifier bytes',
 'C06': 'abstract interpretation of wire-format writers and readers over the byte/bit-provenance domain; checksum in a linear-sum domain; serial scanner interpreted on byte-class streams',
 'C07': 'single-funnel who-calls check; five front-ends interpreted over the provenance domain (roles, orientation)',
 'C08': 'translation validation of generated dispatchers (arms, guards as Extract==Match, targets, fallback) against canboat.json; decision table over payload classes when the spelling differs; encoder lookup interpreted per definition',
 'C09': 'encode_number residual as an exact piecewise-affine function (range, wrap, raise type); mask/shift table vs database; raise-set wrapping; producer inventory; get_field_by_id interpreted',
 'C10': 'decision-table extraction: decoder constructor interpreted per configuration, guards of every filter return evaluated over all list shapes; normal-form and element-type rules',
 'C11': 'key-role dataflow on the source map; manufacturer/window decision table; identity field ids vs database',
 'C12': 'exception-edge containment, single FIFO consumer, who-may-put/get, framing constants on the statement CFG; serial scanner interpreted on byte-class streams under many cuts into reads',
 'C13': 'EOF discipline per read API, fault-path pairing, retry configuration, no-spin cycle rule and forward must-analysis (previous task cancelled) on the statement CFG; termination of the interpreted serial scanner',
 'C14': 'typestate: single state writer, not-CLOSED test reaching every state change with no await between (atomic sections); forward must-analysis with branch refinement for the change-only notification',
 'C15': 'dump decision table; normal-form rule; to_json / its default hook / from_json interpreted over abstract values; raw-first encoder producers',
 'C16': 'ownership/aliasing: read-only summary of mutable default parameters through resolved callees; class/global state sweep',
 'C17': 'translation validation of primary-key flags against canboat.json; add_data interpreted with hashlib recorded (the digest input as a sequence of literals and symbolic raw values)',
 'C18': 'apply_preferred_units interpreted per (quantity, preference) on symbolic fields; affine-domain evaluation of the conversion helpers',
 'C19': 'atomic section / lock region over writes; dominance of encoding; explicit-raise sets closed over the resolved call graph',
 'C20': 'serial scanner interpreted on streams over the byte classes AA / 55 / other under many cuts into reads (delivery, resynchronisation, buffer bound, termination); USB reader interpreted with the checksum comparison answered both ways; statement-CFG rules as confirmation',
}
NOTE = {
 'C05': 'proved per bit for inputs within their declared widths; trusted: CPython ast, bitprov transfer functions for & | << >>',
}
def main():
    props = [json.loads(l) for l in open('properties.jsonl')]
    m = json.load(open('MANIFEST.json'))
    checks = []
    na = []
    for p in props:
        pid = p['id']
        try:
            mod = importlib.import_module(f"n2kstatic.props.{pid.lower()}")
        except ModuleNotFoundError:
            na.append({'property_id': pid, 'reason': 'no static rule built for this property'})
            continue
        und = mod.EXPLANATION.split('UNDECIDED:')[-1].strip() if 'UNDECIDED:' in mod.EXPLANATION else 'nothing inside the quantifier'
        checks.append({
            'property_id': pid,
            'quick_cmd': f"./check {pid} quick",
            'thorough_cmd': f"./check {pid} thorough",
            'evidence_file': f"evidence/{pid}.json",
            'replay_cmd_template': './check-replay {path}',
            'engine': 'n2kstatic',
            'level_claimed': {'category': mod.LEVEL, 'text': mod.EXPLANATION, 'design_ref': f"DESIGN.md section 3.{int(pid[1:])}"},
            'level_note': 'Decides the named clauses (necessary conditions; some on bounded families of abstract histories / streams, see DESIGN 3.0), not the behaviour as a whole. Undecided remainder: ' + und +
                          ' Trusted base: ' + '; '.join(mod.ASSUMPTIONS) + '.',
            'technique': 'static analysis: ' + TECH[pid],
        })
    m['checks'] = checks
    m['not_applicable'] = na
    m['engines'][0]['serves_properties'] = [c['property_id'] for c in checks]
    m['setup_cmd'] = "sh -c 'if [ -x /venv/bin/python ]; then /venv/bin/python -m compileall -q n2kstatic; else python3 -m compileall -q n2kstatic; fi'"
    m['notes'] = ('Static analysis only: every check parses /repo\'s working tree (stdlib ast) and executes nothing of nmea2000. Exit 0 = all obligations discharged '
                  '(or listed in KNOWN_FINDINGS.txt), 1 = VIOLATION, 2 = ANALYSIS-ERROR (analysis could not decide; never a silent pass). See DESIGN.md.')
    json.dump(m, open('MANIFEST.json', 'w'), indent=1)
    print(len(checks), 'checks,', len(na), 'not applicable')
main()
