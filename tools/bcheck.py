#!/usr/bin/env python3
"""developer tool: run checks against /repo + one stored patch (seeded/ or benign/), printing violations and errors.

usage: tools/bcheck.py <dir with patch.diff> [PROP ...]      (default: all 20)
A throw-away copy of nmea2000/ (+ canboat.json link) is made under the system temp dir and removed afterwards.
"""
import os, shutil, subprocess, sys, tempfile, json
from concurrent.futures import ThreadPoolExecutor
VERIF = os.path.dirname(os.path.dirname(os.path.abspath(__file__)))
PY = '/venv/bin/python' if os.path.exists('/venv/bin/python') else sys.executable

def run(seed, props, verbose=True):
    d = tempfile.mkdtemp(prefix='n2kb-')
    evd = tempfile.mkdtemp(prefix='n2kev-')
    try:
        shutil.copytree('/repo/nmea2000', os.path.join(d, 'nmea2000'), ignore=shutil.ignore_patterns('__pycache__'))
        os.symlink('/repo/canboat.json', os.path.join(d, 'canboat.json'))
        r = subprocess.run(['git', 'apply', '--include=nmea2000/*', os.path.join(os.path.abspath(seed), 'patch.diff')], cwd=d, capture_output=True, text=True)
        if r.returncode:
            return {'error': r.stderr[:300]}
        res = {}
        def one(p):
            e = dict(os.environ, N2K_EVIDENCE_DIR=evd)
            r = subprocess.run([PY, '-B', '-m', 'n2kstatic', 'check', p, '--tier', 'quick', '--repo', d], cwd=VERIF, env=e, capture_output=True, text=True)
            lines = [l for l in (r.stdout + r.stderr).splitlines() if ('expected=' in l and '[' in l) or l.startswith('ANALYSIS-ERROR') or 'Traceback' in l]
            return p, r.returncode, lines
        with ThreadPoolExecutor(max_workers=8) as ex:
            for p, rc, lines in ex.map(one, props):
                res[p] = (rc, lines)
        return res
    finally:
        shutil.rmtree(d, ignore_errors=True)
        shutil.rmtree(evd, ignore_errors=True)

if __name__ == '__main__':
    seed = sys.argv[1]
    props = sys.argv[2:] or [f"C{i:02d}" for i in range(1, 21)]
    res = run(seed, props)
    if 'error' in res:
        print('ERROR', res['error']); sys.exit(3)
    for p, (rc, lines) in sorted(res.items()):
        if rc:
            print(f"== {p} rc={rc}")
            for l in lines[:int(os.environ.get('N', '6'))]:
                print('   ', l[:int(os.environ.get('W', '700'))])
