#!/usr/bin/env python3
"""regenerates the 'seeded changes' table of DESIGN.md (between the SEEDED-TABLE markers) from seeded/*/meta.json"""
import json, os, glob, re
V = os.path.dirname(os.path.dirname(os.path.abspath(__file__)))
rows = []
for d in sorted(glob.glob(os.path.join(V, 'seeded', '*'))):
    mp = os.path.join(d, 'meta.json')
    if not os.path.exists(mp):
        continue
    m = json.load(open(mp))
    pid = m.get('property')
    det = m.get('checks_on_changed_tree', {})
    own = det.get(pid, {})
    o = own.get('outcome', 'silent')
    rules = ','.join(own.get('rules', []) or own.get('unconfirmed_rules', []))
    others = ', '.join(f"{k}:{'V' if v['outcome'] == 'VIOLATION' else 'E'}" for k, v in sorted(det.items()) if k != pid)
    summ = re.sub(r'\s+', ' ', m.get('summary', ''))[:150].replace('|', '/')
    rows.append(f"| {os.path.basename(d)} | {summ} | {o}{' [' + rules + ']' if rules else ''} | {others or '-'} |")
caught = sum(1 for r in rows if '| VIOLATION' in r)
refused = sum(1 for r in rows if '| ANALYSIS-ERROR' in r)
silent_own = [r for r in rows if '| silent' in r]
table = [f"{len(rows)} confirmed seeded changes; own property reports VIOLATION for {caught}, ANALYSIS-ERROR (fail-closed refusal) for {refused}, is silent for {len(silent_own)} "
         f"(of which {sum(1 for r in silent_own if r.rstrip().endswith('| - |'))} are silent in every check).", '',
         '| seed | change (sub-agent\'s summary) | own property\'s check | other checks (V = violation, E = analysis error) |', '|---|---|---|---|'] + rows
p = os.path.join(V, 'DESIGN.md')
s = open(p).read()
a, b = '<!-- SEEDED-TABLE-BEGIN -->', '<!-- SEEDED-TABLE-END -->'
if a in s and b in s:
    s = s[:s.index(a) + len(a)] + '\n' + '\n'.join(table) + '\n' + s[s.index(b):]
    open(p, 'w').write(s)
print('\n'.join(table[:2]))
# benign table
rows = []
nsilent = 0
for d in sorted(glob.glob(os.path.join(V, 'benign', '*'))):
    mp = os.path.join(d, 'meta.json')
    if not os.path.exists(mp):
        continue
    m = json.load(open(mp))
    det = m.get('checks_on_changed_tree', {})
    summ = re.sub(r'\s+', ' ', m.get('summary', ''))[:170].replace('|', '/')
    res = ', '.join(f"{k}:{'VIOLATION' if v['outcome'] == 'VIOLATION' else 'refused'}" for k, v in sorted(det.items())) or 'silent in all 20 checks'
    nsilent += 0 if det else 1
    rows.append(f"| {os.path.basename(d)} | {summ} | {res} |")
bt = [f"{len(rows)} confirmed behaviour-preserving changes; {nsilent} leave all 20 checks silent.", '',
      '| change | what was rewritten (sub-agent\'s summary) | checks |', '|---|---|---|'] + rows
s = open(p).read()
a, b = '<!-- BENIGN-TABLE-BEGIN -->', '<!-- BENIGN-TABLE-END -->'
if a in s and b in s:
    s = s[:s.index(a) + len(a)] + '\n' + '\n'.join(bt) + '\n' + s[s.index(b):]
    open(p, 'w').write(s)
print(bt[0])
