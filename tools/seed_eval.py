#!/usr/bin/env python3
"""developer tool: confirm a sub-agent's seeded change in a scratch worktree and run all checks against it.

usage: tools/seed_eval.py <seed dir> [<seed dir> ...]      (each holds patch.diff, demo.py, meta.json)
For each seed: scratch git worktree of /repo HEAD under /tmp (removed afterwards); apply the patch; the 71 tests must pass;
demo must fail with the patch and pass without; then every property check is run with --repo <scratch> (evidence redirected
to a temp dir so that /verif/evidence is untouched).  Confirmed seeds are copied to /verif/seeded/<property>-<n>/ with the
outcome recorded in meta.json.  Nothing is ever applied to /repo by this tool.
"""
import json, os, shutil, subprocess, sys, tempfile, re
from concurrent.futures import ThreadPoolExecutor
import threading, fcntl
PYTEST_LOCK = threading.Lock()   # the suite binds a fixed TCP port: one run at a time
VERIF = os.path.dirname(os.path.dirname(os.path.abspath(__file__)))
PY = '/venv/bin/python'
PROPS = [f"C{i:02d}" for i in range(1, 21)]

def sh(cmd, cwd=None, env=None, timeout=600):
    e = dict(os.environ); e.update(env or {})
    r = subprocess.run(cmd, cwd=cwd, env=e, capture_output=True, text=True, timeout=timeout)
    return r.returncode, (r.stdout + r.stderr)

def evaluate(seed):
    seed = os.path.abspath(seed)
    meta = json.load(open(os.path.join(seed, 'meta.json')))
    pid = meta.get('property')
    out = {'seed': seed, 'property': pid, 'summary': meta.get('summary')}
    scratch = tempfile.mkdtemp(prefix='n2kseed-')
    os.rmdir(scratch)
    rc, o = sh(['git', '-C', '/repo', 'worktree', 'add', '-q', '--detach', scratch, 'HEAD'])
    if rc:
        out['error'] = 'worktree: ' + o; return out
    evd = tempfile.mkdtemp(prefix='n2kev-')
    try:
        rc, o = sh(['git', 'apply', os.path.join(seed, 'patch.diff')], cwd=scratch)
        if rc:
            out['error'] = 'patch does not apply: ' + o[:300]; return out
        with PYTEST_LOCK:
            with open('/tmp/n2k-pytest.lock', 'w') as lf:
                fcntl.flock(lf, fcntl.LOCK_EX)
                rc, o = sh([PY, '-m', 'pytest', '-q', '-p', 'no:cacheprovider', '--timeout=900'], cwd=scratch)
                if rc != 0:      # another session may hold the fixed port: one retry
                    rc, o = sh([PY, '-m', 'pytest', '-q', '-p', 'no:cacheprovider', '--timeout=900'], cwd=scratch)
        m = re.search(r'(\d+) passed', o)
        out['pytest_with_change'] = (m.group(0) if m else o[-200:]) + ('' if rc == 0 else ' (rc=%d)' % rc)
        out['tests_ok'] = rc == 0 and m is not None and int(m.group(1)) >= 71
        rc, o = sh([PY, os.path.join(seed, 'demo.py')], cwd=seed, env={'N2K_REPO': scratch}, timeout=120)
        out['demo_with_change_rc'] = rc
        out['demo_with_change_tail'] = o[-300:]
        # checks against the changed tree
        det = {}
        for p in PROPS:
            rc2, o2 = sh([PY, '-B', '-m', 'n2kstatic', 'check', p, '--tier', 'quick', '--repo', scratch], cwd=VERIF, env={'N2K_EVIDENCE_DIR': evd})
            lines = [l for l in o2.splitlines() if '[' in l and ']' in l and ('expected=' in l)]
            rules = sorted({re.search(r'\[([A-Z0-9-]+)\]', l).group(1) for l in lines if re.search(r'\[([A-Z0-9-]+)\]', l)})
            if rc2 == 1:
                det[p] = {'outcome': 'VIOLATION', 'rules': rules, 'first': lines[0][:300] if lines else ''}
            elif rc2 == 2:
                errs = [l for l in o2.splitlines() if l.startswith('ANALYSIS-ERROR')]
                det[p] = {'outcome': 'ANALYSIS-ERROR', 'first': (errs[0] if errs else o2[-200:])[:300], 'unconfirmed_rules': rules}
        out['checks'] = det
        sh(['git', 'checkout', '--', '.'], cwd=scratch)
        rc, o = sh([PY, os.path.join(seed, 'demo.py')], cwd=seed, env={'N2K_REPO': scratch}, timeout=120)
        out['demo_without_change_rc'] = rc
        if meta.get('kind') == 'benign':
            out['kind'] = 'benign'
            out['confirmed'] = bool(out['tests_ok'] and out['demo_with_change_rc'] == 0 and out['demo_without_change_rc'] == 0)
        else:
            out['confirmed'] = bool(out['tests_ok'] and out['demo_with_change_rc'] != 0 and out['demo_without_change_rc'] == 0)
    finally:
        sh(['git', '-C', '/repo', 'worktree', 'remove', '--force', scratch])
        shutil.rmtree(scratch, ignore_errors=True)
        shutil.rmtree(evd, ignore_errors=True)
    return out

def main():
    seeds = sys.argv[1:]
    def safe(seed):
        try:
            return evaluate(seed)
        except Exception as e:
            return {'seed': os.path.abspath(seed), 'property': None, 'error': f"{type(e).__name__}: {e}"}
    with ThreadPoolExecutor(max_workers=6) as ex:
        results = list(ex.map(safe, seeds))
    os.makedirs(os.path.join(VERIF, 'seeded'), exist_ok=True)
    os.makedirs(os.path.join(VERIF, 'benign'), exist_ok=True)
    for r in results:
        pid = r.get('property')
        det = r.get('checks', {})
        own = det.get(pid, {}).get('outcome', 'silent')
        others = {k: v['outcome'] for k, v in det.items() if k != pid}
        print(f"{r['seed']}: confirmed={r.get('confirmed')} tests={r.get('pytest_with_change')} demo(with)={r.get('demo_with_change_rc')} demo(without)={r.get('demo_without_change_rc')} | {pid}: {own} {det.get(pid, {}).get('rules', '')} | others: {others}")
        if r.get('error'):
            print('   ERROR', r['error'])
        if r.get('confirmed'):
            k = os.path.basename(r['seed'].rstrip('/'))
            dst = os.path.join(VERIF, 'benign' if r.get('kind') == 'benign' else 'seeded', k if k.startswith(pid + '-') else f"{pid}-{k}")
            os.makedirs(dst, exist_ok=True)
            for fn in ('patch.diff', 'demo.py'):
                if os.path.abspath(os.path.join(r['seed'], fn)) != os.path.abspath(os.path.join(dst, fn)):
                    shutil.copy(os.path.join(r['seed'], fn), os.path.join(dst, fn))
            meta = json.load(open(os.path.join(r['seed'], 'meta.json')))
            meta['confirmed_by_framework_author'] = {'pytest_with_change': r['pytest_with_change'], 'demo_with_change_exit': r['demo_with_change_rc'], 'demo_without_change_exit': r['demo_without_change_rc'],
                                                    'how': 'tools/seed_eval.py: scratch worktree of /repo HEAD, git apply, pytest, demo with N2K_REPO=<scratch>, git checkout, demo again'}
            meta['checks_on_changed_tree'] = det
            json.dump(meta, open(os.path.join(dst, 'meta.json'), 'w'), indent=1)
main()
