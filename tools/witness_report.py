#!/usr/bin/env python3
"""developer tool: run the witness corpus for the given properties and print outcomes (does not touch evidence)"""
import sys, os, importlib, json
sys.path.insert(0, os.path.dirname(os.path.dirname(os.path.abspath(__file__))))
from n2kstatic.model import Program
from n2kstatic.runner import Check
from n2kstatic import witness
for pid in sys.argv[1:]:
    mod = importlib.import_module(f"n2kstatic.props.{pid.lower()}")
    p = Program(os.environ.get('N2K_REPO', '/repo'))
    c = Check(pid, 'thorough', 0, mod.LEVEL, p)
    mod.run(c, p, 'thorough')
    s = witness.run(c, mod, p, pid, 0)
    print(pid, {k: v for k, v in s.items() if k not in ('details',)})
    for d in s['details']:
        if d['outcome'] not in ('detected',):
            print('   ', d)
