#!/usr/bin/env python3
"""developer tool: the rules tested both ways on the stored changes.

  seeded/<id>   breaking change: the check of its own property must not be silent (VIOLATION, or ANALYSIS-ERROR = refused)
  benign/<id>   behaviour-preserving change: every check should be silent (VIOLATION = false alarm, ANALYSIS-ERROR = refused)

usage: tools/regress.py [seeded|benign|all] [name-prefix ...]
Each change is applied to a throw-away copy of nmea2000/ under the system temp dir; nothing is run from the repository.
"""
import os, sys, json
from concurrent.futures import ThreadPoolExecutor
sys.path.insert(0, os.path.dirname(os.path.abspath(__file__)))
import bcheck
VERIF = bcheck.VERIF
ALL = [f"C{i:02d}" for i in range(1, 21)]

def main():
    what = sys.argv[1] if len(sys.argv) > 1 else 'all'
    prefixes = sys.argv[2:]
    jobs = []
    if what in ('seeded', 'all'):
        for d in sorted(os.listdir(os.path.join(VERIF, 'seeded'))):
            if not prefixes or any(d.startswith(p) for p in prefixes):
                jobs.append(('seeded', d, [d[:3]]))
    if what in ('benign', 'all'):
        for d in sorted(os.listdir(os.path.join(VERIF, 'benign'))):
            if not prefixes or any(d.startswith(p) for p in prefixes):
                jobs.append(('benign', d, ALL))
    def one(j):
        kind, d, props = j
        return j, bcheck.run(os.path.join(VERIF, kind, d), props)
    out = {'seeded': {}, 'benign': {}}
    with ThreadPoolExecutor(max_workers=3) as ex:
        for (kind, d, props), res in ex.map(one, jobs):
            if 'error' in res:
                print(f"{kind}/{d}: ERROR {res['error']}")
                continue
            if kind == 'seeded':
                rc, lines = res[props[0]]
                out['seeded'][d] = rc
                if rc == 0:
                    print(f"MISSED seeded/{d}")
            else:
                bad = {p: rc for p, (rc, _) in res.items() if rc}
                out['benign'][d] = bad
                for p, rc in sorted(bad.items()):
                    ls = res[p][1]
                    if rc == 1:
                        ls = [x for x in ls if 'expected=' in x] or ls
                    l = ls[0][:240] if ls else ''
                    print(f"{'ALARM ' if rc == 1 else 'refuse'} benign/{d} {p} {l}")
    s = out['seeded']
    if s:
        print(f"seeded: {len(s)} changes; VIOLATION {sum(1 for v in s.values() if v == 1)}, refused {sum(1 for v in s.values() if v == 2)}, missed {sum(1 for v in s.values() if v == 0)}")
    b = out['benign']
    if b:
        print(f"benign: {len(b)} changes; fully silent {sum(1 for v in b.values() if not v)}, with a false alarm {sum(1 for v in b.values() if 1 in v.values())}, only refusals {sum(1 for v in b.values() if v and 1 not in v.values())}")
    json.dump(out, open('/tmp/regress_last.json', 'w'))
main()
