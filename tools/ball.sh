#!/bin/sh
# developer tool: run every check against every stored benign refactoring; one line per (refactoring, property) that is not silent
cd "$(dirname "$0")/.."
for d in ${@:-benign/*}; do
  python3 tools/bcheck.py $d 2>&1 | grep -v WARNING | awk -v d=$(basename $d) '/^== /{p=$2; rc=$3; getline l; print d, p, rc, substr(l,1,260)}'
done
