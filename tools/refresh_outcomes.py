#!/usr/bin/env python3
"""developer tool: re-run every check against every stored change (seeded/ and benign/) and record the outcomes in its meta.json
(`checks_on_changed_tree`: only the properties that are not silent).  Uses throw-away copies of nmea2000/ (tools/bcheck.py)."""
import os, sys, json, re
from concurrent.futures import ThreadPoolExecutor
sys.path.insert(0, os.path.dirname(os.path.abspath(__file__)))
import bcheck
VERIF = bcheck.VERIF
ALL = [f"C{i:02d}" for i in range(1, 21)]
# PROPS=C03,C18 in the environment: only these checks are re-run and merged into the recorded outcomes (after a change that touches only them)
ONLY = [p for p in os.environ.get('PROPS', '').split(',') if p]
# optional arguments: substrings a directory name must contain (e.g. `-r8-`), to refresh a subset only
jobs = [(k, d) for k in ('seeded', 'benign') for d in sorted(os.listdir(os.path.join(VERIF, k))) if not sys.argv[1:] or any(a in d for a in sys.argv[1:])]
def one(j):
    kind, d = j
    return j, bcheck.run(os.path.join(VERIF, kind, d), ONLY or ALL)
with ThreadPoolExecutor(max_workers=8 if ONLY else 4) as ex:
    for (kind, d), res in ex.map(one, jobs):
        mp = os.path.join(VERIF, kind, d, 'meta.json')
        meta = json.load(open(mp))
        det = {k: v for k, v in meta.get('checks_on_changed_tree', {}).items() if k not in ONLY} if ONLY else {}
        if 'error' in res:
            print(kind, d, 'ERROR', res['error']); continue
        for p, (rc, lines) in sorted(res.items()):
            if rc == 1:
                vl = [l for l in lines if 'expected=' in l]
                rules = sorted({m.group(1) for l in vl for m in [re.search(r'\[([A-Z0-9-]+)\]', l)] if m})
                det[p] = {'outcome': 'VIOLATION', 'rules': rules, 'first': (vl[0] if vl else (lines[0] if lines else ''))[:300]}
            elif rc == 2:
                det[p] = {'outcome': 'ANALYSIS-ERROR', 'first': (lines[0] if lines else '')[:300]}
        meta['checks_on_changed_tree'] = det
        json.dump(meta, open(mp, 'w'), indent=1)
        own = det.get(d[:3], {}).get('outcome', 'silent')
        print(kind, d, own, sorted(det))
