#!/usr/bin/env python3
"""developer tool: print the violation keys a property currently reports (used once to write KNOWN_FINDINGS.txt / known_sites by hand; never run by a check)"""
import sys, os
sys.path.insert(0, os.path.dirname(os.path.dirname(os.path.abspath(__file__))))
import importlib
from n2kstatic.model import Program
from n2kstatic.runner import Check
pid = sys.argv[1]
mod = importlib.import_module(f"n2kstatic.props.{pid.lower()}")
p = Program(os.environ.get('N2K_REPO', '/repo'))
c = Check(pid, 'quick', 0, mod.LEVEL, p)
mod.run(c, p, 'quick')
for o in c.obs:
    if o.status == 'violation':
        print(o.rule, o.instance, o.group or '-', sep='\t')
